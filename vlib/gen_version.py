"""Generators for the `ver` family (src/resources/version_info.rs).

An independent writer of VS_VERSIONINFO blocks (absolute 32-bit alignment, lengths patched after
the children are written), the abstract tree in the `tree=` syntax of Driver/Version.lean, and a
corrupter (odd / zero / oversized lengths, truncation around every node end, random words)."""
import itertools, struct


def W(s):
    """utf-16 code units of a python string"""
    b = s.encode("utf-16-le", "surrogatepass")
    return list(struct.unpack("<%dH" % (len(b) // 2), b))


def hexw(ws):
    return "".join("%04x" % w for w in ws) if ws else "-"


def hexb(ws):
    return b"".join(struct.pack("<H", w & 0xFFFF) for w in ws).hex() if ws else "-"


class Node:
    def __init__(self, key, value=(), text=True, children=()):
        self.key, self.value, self.text, self.children = list(key), list(value), text, list(children)


class Writer:
    """conv: 'doc' = wValueLength in words for text and bytes for binary nodes (documented);
    'bytes' = always bytes; 'words' = always words.  trail = pad after the last child too."""
    def __init__(self, tight=False, conv="doc", trail=False):
        self.tight, self.conv, self.trail = tight, conv, trail
        self.out = []
        self.nodes = []          # (start, end, depth) in words

    def node(self, n, depth=0):
        out = self.out
        start = len(out)
        if self.conv == "doc":
            vl = len(n.value) if n.text else 2 * len(n.value)
        elif self.conv == "bytes":
            vl = 2 * len(n.value)
        else:
            vl = len(n.value)
        out += [0, vl, 1 if n.text else 0]
        out += n.key + [0]
        if not (self.tight and not n.value and not n.children):
            while len(out) % 2:
                out.append(0)
            out += n.value
            for c in n.children:
                while len(out) % 2:
                    out.append(0)
                self.node(c, depth + 1)
            if self.trail and n.children:
                while len(out) % 2:
                    out.append(0)
        out[start] = 2 * (len(out) - start)
        self.nodes.append((start, len(out), depth))


class LayoutWriter:
    """The documented layout with the choices it leaves open made at random, per structure: what the
    padding words hold, whether a structure with neither value nor children keeps Padding1, whether
    padding follows a value that ends its structure or the last child of a structure, and wType.
    (Spec.IsNode in lean/PeliteModel/Spec/Version.lean is the relation; Spec.VInfo.isBlockB its test.)"""
    def __init__(self, rng):
        self.rng = rng
        self.out = []

    def padword(self):
        return self.rng.choice([0, 0, 0xFFFF, 1, 0x41, 0xAAAA, self.rng.randrange(65536)])

    def align(self):
        while len(self.out) % 2:
            self.out.append(self.padword())

    def node(self, n):
        rng, out = self.rng, self.out
        start = len(out)
        vl = len(n.value) if n.text else 2 * len(n.value)
        out += [0, vl, rng.choice([0, 1, 1 if n.text else 0, 7, 0xFFFF])]
        out += n.key + [0]
        if not n.value and not n.children and rng.random() < 0.5:
            pass                                    # ends right after the key
        else:
            self.align()                            # Padding1
            out += n.value
            if n.children:
                self.align()                        # Padding2
                for i, c in enumerate(n.children):
                    self.node(c)
                    if i + 1 < len(n.children) or rng.random() < 0.5:
                        self.align()                # between siblings: always; after the last: optional
            elif rng.random() < 0.5:
                self.align()                        # Padding2 kept although nothing follows
        out[start] = 2 * (len(out) - start)


def encode_layout(rng, v):
    w = LayoutWriter(rng)
    w.node(to_node(v))
    if rng.random() < 0.3:                          # whatever follows the root is not part of the resource
        w.out += [rng.choice([0, 1, 0xFFFF, rng.randrange(65536)]) for _ in range(rng.choice([1, 2, 3, 5, 8]))]
    return w.out


# abstract version info: dict(key=[..], value=[..], blocks=[("S", [(lang, [(key, stored), ..]), ..]) | ("R", [(key, value), ..])])
K_SFI, K_VFI, K_TR, K_ROOT = W("StringFileInfo"), W("VarFileInfo"), W("Translation"), W("VS_VERSION_INFO")


def to_node(v):
    blocks = []
    for kind, items in v["blocks"]:
        if kind == "S":
            blocks.append(Node(K_SFI, [], True, [Node(l, [], True, [Node(k, s, True) for k, s in strs]) for l, strs in items]))
        else:
            blocks.append(Node(K_VFI, [], True, [Node(k, val, False) for k, val in items]))
    return Node(v["key"], v["value"], False, blocks)


def tree_arg(v, tight):
    """tight: False / True = the block comes from the reference conventions; "L" = from LayoutWriter;
    "B" = some String stores its value length in bytes (gen_bytecounted): not claimed to be a documented layout"""
    bl = []
    for kind, items in v["blocks"]:
        if kind == "S":
            bl.append("S" + ";".join("%s:%s" % (hexw(l), ",".join("%s=%s" % (hexw(k), hexw(s)) for k, s in strs)) for l, strs in items))
        else:
            bl.append("R" + ";".join("%s=%s" % (hexw(k), hexw(val)) for k, val in items))
    mode = tight if tight in ("L", "B") else "1" if tight else "0"
    return "tree=%s/%s/%s/%s" % (mode, hexw(v["key"]), hexw(v["value"]), "|".join(bl))


def encode(v, tight=False, conv="doc", trail=False):
    w = Writer(tight, conv, trail)
    w.node(to_node(v))
    return w.out, w.nodes


FIXED = [0x04BD, 0xFEEF, 0, 1, 607, 22, 25, 2013, 3, 2, 1, 0xFFFF, 0x3F, 0, 0, 0x8000, 4, 4, 2, 0, 0, 0, 0x1234, 0x5678, 0x9ABC, 0xDEF0]
KEYS = ["CompanyName", "FileDescription", "FileVersion", "InternalName", "A", "Ab", "Abc", "", "Comments", "kéy", "中文", "x\U0001F600", "q\"\\\t\n\r"]
LANGS = ["040904b0", "040904B0", "000004b0", "04090000", "00000000", "ffffFFFF", "0409abcd", "040904E4"]


def rand_value(rng):
    r = rng.random()
    if r < 0.15:
        return []                                   # no value at all
    if r < 0.30:
        return [0]                                  # empty string
    n = rng.choice([1, 2, 3, 4, 5, 8, 13])
    body = [rng.choice([0x41, 0x62, 0x20, 0x31, 0xE9, 0x4E2D, 0x22, 0x5C, 10, 13, 9, 0x7F]) for _ in range(n)]
    if r < 0.42:
        body[rng.randrange(n)] = 0                  # embedded NUL
    if r < 0.50:
        body += [0xD83D, 0xDE00]                    # surrogate pair
    if r < 0.55:
        body.append(rng.choice([0xD800, 0xDC00, 0xDFFF, 0xDBFF]))   # lone surrogate
    if r < 0.62:
        return body                                 # not terminated
    if r < 0.70:
        return body + [0, 0]                        # two NULs: only one is stripped
    return body + [0]


def rand_info(rng, clean):
    """clean = keys distinct per table, languages distinct, no lone surrogates in keys (queries determined)"""
    blocks = []
    shape = rng.choice(["SR", "RS", "S", "R", "", "SS", "SRS", "RR"] if not clean else ["SR", "RS", "S", "R", "", "SR", "RS"])
    used_langs = set()
    for kind in shape:
        if kind == "S":
            tables = []
            for _t in range(rng.choice([0, 1, 1, 2, 3])):
                lang = rng.choice(LANGS)
                if clean:
                    if lang.lower() in used_langs:
                        continue
                    used_langs.add(lang.lower())
                elif rng.random() < 0.1:
                    lang = rng.choice(["0409", "040904b", "040904b00", "0409g4b0", "zzzzzzzz", " 40904b0", ""])
                strs = []
                keys = list(KEYS)
                rng.shuffle(keys)
                for _s in range(rng.choice([0, 1, 2, 3, 5])):
                    k = W(keys.pop()) if clean else W(rng.choice(KEYS))
                    if not clean and rng.random() < 0.05:
                        k = k + [rng.choice([0xD800, 0xDC00])]
                    strs.append((k, rand_value(rng)))
                tables.append((W(lang), strs))
            blocks.append(("S", tables))
        else:
            vs = []
            for _v in range(rng.choice([0, 1, 1, 1, 2])):
                k = K_TR if rng.random() < 0.8 else W(rng.choice(["Other", "Translatio", "Translation2", "T"]))
                n = rng.choice([0, 1, 2, 3])
                val = []
                for _i in range(n):
                    val += [rng.choice([0x409, 0, 0x407, 0xFFFF]), rng.choice([1200, 1252, 0, 0xFFFF])]
                if rng.random() < 0.1:
                    val.append(7)                   # odd number of words: half a pair
                vs.append((k, val))
            blocks.append(("R", vs))
    r = rng.random()
    value = FIXED if r < 0.6 else [] if r < 0.8 else [rng.randrange(65536) for _ in range(rng.choice([1, 2, 25, 27, 52]))]
    if r < 0.6 and rng.random() < 0.5:
        value = [rng.randrange(65536) for _ in range(26)]
    key = K_ROOT if rng.random() < 0.8 else W(rng.choice(["", "V", "VS", "VS_VERSION_INF", "anything at all"]))
    return {"key": key, "value": value, "blocks": blocks}


def query_ops(rng, v, hx, tree, every=True):
    """the op lines for one block"""
    t = (" " + tree) if tree else ""
    ops = ["ver %s events%s" % (hx, t), "ver %s fixed%s" % (hx, t), "ver %s translation%s" % (hx, t),
           "ver %s file_info%s" % (hx, t), "ver %s source%s" % (hx, t)]
    langs, pairs = [], []
    if v:
        for kind, items in v["blocks"]:
            if kind == "S":
                for l, strs in items:
                    ls = "".join(chr(c) for c in l)
                    try:
                        n = int(ls, 16) if len(ls) == 8 else None
                    except ValueError:
                        n = None
                    if n is not None and " " not in ls and "+" not in ls and "-" not in ls and "_" not in ls:
                        langs.append("%08x" % n)
                        for k, _s in strs:
                            pairs.append(("%08x" % n, k))
    langs = sorted(set(langs)) + ["12345678"]
    if not every:
        langs = langs[:2]
    for l in langs:
        ops.append("ver %s strings %s%s" % (hx, l, t))
    pairs.append((langs[0], W("NoSuchKey")))
    pairs.append(("12345678", W("CompanyName")))
    if not every:
        rng.shuffle(pairs)
        pairs = pairs[:3]
    seen = set()
    for l, k in pairs:
        if (l, tuple(k)) in seen:
            continue
        seen.add((l, tuple(k)))
        ops.append("ver %s value %s %s%s" % (hx, l, hexw(k), t))
    return ops


def gen_wellformed(rng, tier):
    cases = []
    n = 260 if tier == "quick" else 6000
    # hand-picked: the smallest documents
    small = [
        {"key": K_ROOT, "value": [], "blocks": []},
        {"key": [], "value": [], "blocks": []},
        {"key": W("A"), "value": [], "blocks": []},
        {"key": K_ROOT, "value": FIXED, "blocks": []},
        {"key": K_ROOT, "value": FIXED, "blocks": [("R", [])]},
        {"key": K_ROOT, "value": FIXED, "blocks": [("S", [])]},
        {"key": K_ROOT, "value": FIXED, "blocks": [("S", [(W("040904b0"), [])])]},
        {"key": K_ROOT, "value": FIXED, "blocks": [("S", [(W("040904b0"), [(W("A"), [])])])]},
        {"key": K_ROOT, "value": FIXED, "blocks": [("S", [(W("040904b0"), [(W("A"), []), (W("Bc"), [0]), (W("Def"), W("x\0")), (W(""), W("y\0"))])]), ("R", [(K_TR, [0x409, 1200])])]},
        {"key": K_ROOT, "value": [], "blocks": [("R", [(K_TR, [])]), ("R", [(W("T"), [])])]},
        # two tables naming the same language: value() sees both, the hash map only the last
        {"key": K_ROOT, "value": FIXED, "blocks": [("S", [(W("040904b0"), [(W("A"), W("1\0"))]), (W("040904B0"), [(W("B"), W("2\0"))])])]},
    ]
    for v in small:
        for tight in (False, True):
            ws, _ = encode(v, tight)
            cases.append(query_ops(rng, v, hexb(ws), tree_arg(v, tight)) + (skip2_ops(rng, hexb(ws), len(SKIP2)) if v["blocks"] else []))
            # the same documents at every placement modulo 16: the fixed info is handed out as a
            # `&VS_FIXEDFILEINFO` (alignment 4), so only 4-aligned blocks may be accepted
            if v["value"]:
                for al in (2, 6, 10, 14, 1, 4, 8, 12):
                    cases.append(["verat %d %s %s" % (al, hexb(ws), q) for q in ("events", "fixed", "file_info", "source")])
    for i in range(n):
        clean = rng.random() < 0.7
        v = rand_info(rng, clean)
        tight = rng.random() < 0.5
        ws, _ = encode(v, tight)
        if 2 * len(ws) >= 65536:
            continue
        cases.append(query_ops(rng, v, hexb(ws), tree_arg(v, tight), every=(i % 4 == 0)) + (skip2_ops(rng, hexb(ws)) if i % 3 == 0 else []))
    # one document close to the 64 KiB limit of wLength
    big = {"key": K_ROOT, "value": FIXED, "blocks": [("S", [(W("040904b0"), [(W("Key%d" % i), W("v" * (i % 37)) + [0]) for i in range(1100)])])]}
    ws, _ = encode(big, False)
    if 2 * len(ws) < 65536:
        hx = hexb(ws)
        t = tree_arg(big, False)
        cases.append(["ver %s events %s" % (hx, t), "ver %s file_info %s" % (hx, t), "ver %s value 040904b0 %s %s" % (hx, hexw(W("Key1099")), t), "ver %s source %s" % (hx, t)])
    return cases


# events_skip2 <fmask> <tmask>: decline the i-th file_info iff bit i of fmask, the j-th string_table iff bit j of tmask
SKIP2 = [(0, 0), (1, 0), (2, 0), (3, 0), (0, 1), (0, 2), (0, 5), (2, 1), (1, 3), (0, 0xFFFFFFFFFFFFFFFF), (0xFFFFFFFFFFFFFFFF, 0), (4, 6)]


def skip2_ops(rng, hx, k=3):
    """recording visitors that decline file_info / string_table callbacks (compared with the model)"""
    return ["ver %s events_skip2 %d %d" % ((hx,) + m) for m in rng.sample(SKIP2, k)]


def gen_layouts(rng, tier):
    """documented layouts that are not the image of one writer convention: the choices the layout
    leaves open are made at random per structure; judged against the abstract tree (lay=1)"""
    cases = []
    n = 200 if tier == "quick" else 5000
    fixed_docs = [
        {"key": K_ROOT, "value": [], "blocks": []},
        {"key": W("A"), "value": [], "blocks": []},
        {"key": K_ROOT, "value": FIXED, "blocks": [("S", [(W("040904b0"), [(W("A"), []), (W("Bc"), [0]), (W("Def"), W("x\0")), (W(""), W("y\0"))])]), ("R", [(K_TR, [0x409, 1200])])]},
        {"key": K_ROOT, "value": FIXED, "blocks": [("R", [(K_TR, [0x409, 1200, 0x407, 1252]), (W("T"), [])]), ("S", [(W("040904b0"), []), (W("000004b0"), [(W("A"), [])])])]},
    ]
    for v in fixed_docs:
        for _ in range(6):
            ws = encode_layout(rng, v)
            cases.append(query_ops(rng, v, hexb(ws), tree_arg(v, "L")))
    for i in range(n):
        v = rand_info(rng, rng.random() < 0.75)
        ws = encode_layout(rng, v)
        if 2 * len(ws) >= 65536:
            continue
        cases.append(query_ops(rng, v, hexb(ws), tree_arg(v, "L"), every=(i % 4 == 0)))
    return cases


def gen_variants(rng, tier):
    """writers that deviate from the documented conventions (compared with the model only)"""
    cases = []
    n = 120 if tier == "quick" else 3000
    for i in range(n):
        v = rand_info(rng, rng.random() < 0.5)
        conv = rng.choice(["bytes", "words", "doc"])
        trail = rng.random() < 0.5
        if conv == "doc" and not trail:
            trail = True
        ws, _ = encode(v, rng.random() < 0.5, conv, trail)
        cases.append(query_ops(rng, v, hexb(ws), None, every=False))
    # unknown blocks, strings below the root, nested garbage
    for i in range(n // 4):
        kids = []
        for _ in range(rng.randrange(0, 4)):
            kids.append(Node(W(rng.choice(["StringFileInfo", "VarFileInfo", "Other", "", "StringFileInf", "varfileinfo"])), [], True,
                             [Node(W(rng.choice(LANGS + ["x", ""])), rng.choice([[], [0], [1, 2]]), rng.random() < 0.5,
                                   [Node(W(rng.choice(KEYS)), rand_value(rng), rng.random() < 0.7) for _s in range(rng.randrange(0, 3))])
                              for _t in range(rng.randrange(0, 3))]))
        w = Writer(rng.random() < 0.5)
        w.node(Node(K_ROOT, rng.choice([FIXED, []]), False, kids))
        extra = []
        if rng.random() < 0.3:      # a second root after the first one
            w2 = Writer(False)
            w2.node(Node(W("Second"), FIXED, False, []))
            extra = ([0] if len(w.out) % 2 else []) + w2.out
            if rng.random() < 0.5:  # and a third one
                w3 = Writer(True)
                w3.node(Node(W("Third"), [], False, [Node(K_VFI, [], True, [Node(K_TR, [1, 2], False)])]))
                extra += ([0] if len(extra) % 2 else []) + w3.out
        hx = hexb(w.out + extra)
        cases.append(query_ops(rng, None, hx, None, every=False) + ["ver %s events_skip %d" % (hx, k) for k in (1, 2, 3)]
                     + skip2_ops(rng, hx, 4))
    return cases


def gen_bytecounted(rng, tier):
    """`String` structures whose wValueLength counts BYTES (a convention of some resource writers;
    Microsoft documents words).  `visit` reads strings with `Parser::new_words`, so such a string with a
    non-empty value is `Err(Invalid)` and ends the enumeration of its table (Thm/C13Source.lean:
    C13_byte_counted_string_partial / _ends_table).  The blocks carry `tree=B/…`: the oracle makes no
    claim unless the model's layout test accepts the block (only strings WITHOUT a value were marked:
    the same structure under both conventions), so these cases are correspondence-only otherwise."""
    cases = []
    # the witness of C13_byte_counted_string_ends_table
    v = {"key": W("V"), "value": [], "blocks": [("S", [(W("040904b0"), [(W("A"), W("1\0")), (W("B"), W("2\0")), (W("C"), W("3\0"))]),
                                                       (W("000004b0"), [(W("D"), W("4\0"))])])]}
    for which in ((0, 1), (0, 0), (0, 2), (1, 0)):
        n = to_node(v)
        n.children[0].children[which[0]].children[which[1]].text = False
        w = Writer(False)
        w.node(n)
        hx = hexb(w.out)
        cases.append(query_ops(rng, v, hx, tree_arg(v, "B")) + skip2_ops(rng, hx, 2))
    n_cases = 200 if tier == "quick" else 4000
    for i in range(n_cases):
        v = rand_info(rng, rng.random() < 0.7)
        n = to_node(v)
        strs = [s for b in n.children if b.key == K_SFI for t in b.children for s in t.children]
        if not strs:
            continue
        r = rng.random()
        if r < 0.15:
            pick = [s for s in strs if not s.value]                    # only strings without a value: still documented
        elif r < 0.6:
            pick = [rng.choice(strs)]                                  # one string
        elif r < 0.8:
            pick = strs                                                # a writer that counts bytes throughout
        else:
            pick = [s for s in strs if rng.random() < 0.4]
        if not pick:
            continue
        for s_ in pick:
            s_.text = False
        w = Writer(rng.random() < 0.5, "doc", rng.random() < 0.3)
        w.node(n)
        if 2 * len(w.out) >= 65536:
            continue
        hx = hexb(w.out)
        cases.append(query_ops(rng, v, hx, tree_arg(v, "B"), every=(i % 4 == 0)))
    return cases


def gen_corrupt(rng, tier):
    cases = []
    n = 60 if tier == "quick" else 1500
    odd = [1, 3, 5, 7, 9, 11]
    for i in range(n):
        v = rand_info(rng, True)
        tight = rng.random() < 0.5
        ws, nodes = encode(v, tight)
        muts = []
        for (s, e, depth) in nodes:
            L = ws[s]
            # wLength: zero, odd, one word short / long, beyond the parent, huge
            for nl in {0, 2, 6, 8, L - 1, L + 1, L - 2, L + 2, L + 4, (L | 1), 2 * len(ws) + 2, 0xFFFF, 0xFFFE, rng.choice(odd)}:
                if 0 <= nl < 65536 and nl != L:
                    muts.append(("w", s, nl))
            VL = ws[s + 1]
            for nv in {0, 1, 2, VL + 1, VL - 1, 2 * VL, VL // 2, 0xFFFF, 2 * len(ws)}:
                if 0 <= nv < 65536 and nv != VL:
                    muts.append(("w", s + 1, nv))
            # truncation of the whole block around the node's end, in bytes
            for cut in (2 * e - 2, 2 * e - 1, 2 * e, 2 * e + 1, 2 * e + 2, 2 * s + 2, 2 * s + 6, 2 * s + 7):
                if 0 <= cut < 2 * len(ws):
                    muts.append(("t", cut, 0))
            # the key's terminator replaced
            muts.append(("w", min(s + 3 + rng.randrange(0, 6), len(ws) - 1), rng.choice([0, 0x41])))
        rng.shuffle(muts)
        for (kind, a, b) in muts[: (14 if tier == "quick" else 40)]:
            if kind == "w":
                m = list(ws)
                m[a] = b
                hx = hexb(m)
            else:
                by = b"".join(struct.pack("<H", w) for w in ws)[:a]
                hx = by.hex() if by else "-"
            qs = ["events", rng.choice(["fixed", "translation", "file_info", "source", "strings 040904b0", "value 040904b0 " + hexw(W("CompanyName"))])]
            cases.append(["ver %s %s" % (hx, q) for q in qs])
        # random word noise
        m = list(ws)
        for _ in range(rng.choice([1, 2, 4])):
            if m:
                m[rng.randrange(len(m))] = rng.choice([0, 1, 2, 4, 8, 0xFFFF, rng.randrange(65536), rng.randrange(64)])
        cases.append(["ver %s events" % hexb(m), "ver %s file_info" % hexb(m), "ver %s source" % hexb(m)])
    return cases


def gen_small(rng, tier):
    """exhaustive small scope over representative words + random short word lists"""
    cases = []
    alpha = [0, 1, 2, 4, 8, 10, 12, 16, 65]
    maxlen = 5 if tier == "quick" else 6
    for n in range(0, maxlen + 1):
        for tup in itertools.product(alpha if n <= 4 else alpha[:7] if n == 5 else alpha[:5], repeat=n):
            cases.append(["ver %s events" % hexb(list(tup))])
    # the shapes of the former parse_tlv panic: a key of odd length ending its node, at every level
    for klen in range(0, 6):
        node = [2 * (klen + 4), 0, 1] + [0x41] * klen + [0]
        cases.append(["ver %s events" % hexb(node), "ver %s source" % hexb(node), "ver %s file_info" % hexb(node)])
        for outer in (W("StringFileInfo"), W("VarFileInfo")):
            w = Writer(True)
            w.node(Node(K_ROOT, [], False, [Node(outer, [], True, [Node([0x30] * klen, [], True, [Node([0x41] * klen, [], True)])])]))
            cases.append(["ver %s events" % hexb(w.out), "ver %s source" % hexb(w.out)])
    for _ in range(400 if tier == "quick" else 20000):
        n = rng.choice([4, 5, 6, 7, 8, 12, 16, 24, 40])
        ws = [rng.choice([0, 0, 0, 1, 2, 4, 6, 8, 10, 12, 14, 16, 20, 24, 32, 48, 65, 66, rng.randrange(65536)]) for _ in range(n)]
        q = rng.choice(["events", "events", "source", "file_info", "fixed", "translation"])
        cases.append(["ver %s %s" % (hexb(ws), q)])
    # odd byte lengths and misaligned placement
    base = hexb([10, 0, 1, 65, 0, 0])
    for al in (0, 1, 2, 3, 4, 6, 8, 12, 13):
        cases.append(["verat %d %s events" % (al, base), "verat %d %s fixed" % (al, base + "00")])
    cases.append(["ver - events", "ver 00 events", "ver 000000 fixed", "ver - source", "ver - file_info", "ver - translation"])
    return cases


def gen_langparse(rng, tier):
    cases = []
    chars = [0x2F, 0x30, 0x39, 0x3A, 0x40, 0x41, 0x46, 0x47, 0x5A, 0x60, 0x61, 0x66, 0x67, 0x7A, 0, 0xFFFF, 0x100, 0x8000, 0xFF10]
    for c in chars:
        for pos in range(8):
            ws = [0x31] * 8
            ws[pos] = c
            cases.append(["ver %s langparse" % hexb(ws)])
    for n in (0, 1, 7, 9, 16):
        cases.append(["ver %s langparse" % hexb([0x30] * n)])
    for _ in range(300 if tier == "quick" else 5000):
        ws = [rng.choice(W("0123456789abcdefABCDEF") + chars) for _i in range(8)]
        cases.append(["ver %s langparse" % hexb(ws)])
    return cases


def gen_zero_records(rng, tier):
    """nested records of length 0 / 1 / 2 / 3 bytes and of all-zero padding words at the end of (and
    between) the children of the root, of StringFileInfo and of a string table, covered by the
    parent's wLength: the nested parser must skip at least one header, never yield the same record again"""
    cases = []
    n = 40 if tier == "quick" else 1200
    for _ in range(n):
        v = rand_info(rng, True)
        ws, nodes = encode(v, rng.random() < 0.5)
        parents = [(s, e, d) for (s, e, d) in nodes if any(s < s2 and e2 <= e and (s2, e2) != (s, e) for (s2, e2, _d) in nodes)]
        if not parents:
            continue
        s, e, d = rng.choice(parents)
        filler = rng.choice([[0, 0, 0, 0], [0, 0, 0, 0, 0, 0, 0, 0], [1, 0, 0, 0], [2, 0, 1, 0], [3, 0, 0, 0], [0, 0], [0, 0, 1, 0x41, 0, 0]])
        where = rng.choice(["end", "end", "mid"])
        pos = e
        if where == "mid":
            kids = sorted(s2 for (s2, e2, _d) in nodes if s < s2 and e2 <= e)
            pos = rng.choice(kids)
        m = ws[:pos] + filler + ws[pos:]
        for (s2, e2, _d) in nodes:
            if s2 <= s and e <= e2:                 # the chosen parent and its ancestors grow
                m[s2] = (m[s2] + 2 * len(filler)) & 0xFFFF
        hx = hexb(m)
        for q in ("events", rng.choice(["file_info", "source", "translation", "strings 040904b0", "value 040904b0 " + hexw(W("CompanyName"))])):
            cases.append(["ver %s %s" % (hx, q)])
    return cases
