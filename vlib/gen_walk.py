"""Generators for the cross-cutting properties (C01 memory safety, C02 totality, C03 termination):
every image we can get hold of, at several placements, walked through the whole API."""
import os, re, struct
from . import gen_img
from .pe import simple_pe

U32 = 0xFFFFFFFF


def pocs():
    rs = "/repo/tests/pocs/pocs.rs"
    blob = "/repo/tests/pocs/pocs.blob"
    out = []
    if os.path.exists(rs) and os.path.exists(blob):
        data = open(blob, "rb").read()
        for m in re.finditer(r"offset:\s*(0x[0-9a-fA-F]+),\s*len:\s*(0x[0-9a-fA-F]+),\s*name:\s*\"([^\"]+)\"", open(rs).read()):
            off, ln = int(m.group(1), 16), int(m.group(2), 16)
            # the table's offsets are relative to the blob as embedded by include_bytes!
            out.append((m.group(3), data[off:off + ln]))
    return out


def bits_of(data):
    if len(data) < 0x40:
        return None
    e = struct.unpack_from("<I", data, 0x3C)[0]
    if e + 26 > len(data):
        return None
    return {0x10B: 32, 0x20B: 64}.get(struct.unpack_from("<H", data, e + 24)[0])


def walk_case(rng, data, al=None, fl=None, also_view=True):
    b = bits_of(data)
    case = [gen_img.img_line(rng, data, al, fl), "from_bytes wf", "from_bytes wv"]
    for bb in ([b] if b else [32, 64]):
        case.append("walk f%d" % bb)
        case.append("walk v%d" % bb)
    if b and also_view:
        case += ["to_view f%d" % b, "img_to_view f%d" % b, "walk v%d" % b, "to_file v%d" % b]
    return case


EDGE32 = [0, 1, 2, 3, 4, 7, 8, 0x10, 0x7F, 0x80, 0xFF, 0x100, 0xFFF, 0x1000, 0xFFFF, 0x10000, 0x7FFFFFFF, 0x80000000, 0xFFFFFFF0, 0xFFFFFFFC, 0xFFFFFFFD, 0xFFFFFFFE, 0xFFFFFFFF]


def corrupt(rng, data):
    d = bytearray(data)
    n = len(d)
    if n < 0x80:
        return bytes(d)
    e = struct.unpack_from("<I", d, 0x3C)[0]
    for _ in range(rng.choice([1, 1, 2, 3, 5])):
        if n < 0x44:
            break
        r = rng.random()
        if r < 0.45 and e + 0x108 < n:
            # a dword in the headers / data directories / section table
            off = e + 4 * rng.randrange(0, min((n - e) // 4, 0x60 + 10 * rng.randrange(0, 12)))
            struct.pack_into("<I", d, off, rng.choice(EDGE32 + [n, n - 1, n + 1, rng.randrange(1 << 32)]))
        elif r < 0.75:
            # a dword anywhere (directory contents)
            off = 4 * rng.randrange(0, max(n // 4, 1))
            v = struct.unpack_from("<I", d, off)[0]
            struct.pack_into("<I", d, off, rng.choice(EDGE32 + [v + 1 & U32, v - 1 & U32, v ^ 0x80000000, v | 1, rng.randrange(1 << 32)]))
        elif r < 0.9:
            off = rng.randrange(n)
            d[off] = rng.choice([0, 1, 0x7F, 0x80, 0xFF, d[off] ^ (1 << rng.randrange(8))])
        else:
            cut = rng.choice([n - 1, n - 4, n // 2, e + 0x100, rng.randrange(0x40, max(n, 0x41))])
            d = d[:max(0x40, cut)]
            n = len(d)
    return bytes(d)


def gen_walk_corpus(rng, tier):
    cases = []
    files = gen_img.corpus_files() + pocs()
    placements = [(0, "e"), (4, "e")] if tier == "quick" else [(0, "e"), (4, "e"), (8, "s"), (12, "s"), (8, "e")]
    for i, (name, data) in enumerate(files):
        pl = placements if tier != "quick" else [placements[i % 2]]
        for al, fl in pl:
            cases.append(walk_case(rng, data, al, fl))
    return cases


def gen_walk_corrupt(rng, tier):
    cases = []
    files = [d for _, d in gen_img.corpus_files() + pocs() if bits_of(d)]
    n = 250 if tier == "quick" else 12000
    for _ in range(n):
        data = corrupt(rng, rng.choice(files))
        cases.append(walk_case(rng, data, also_view=rng.random() < 0.3))
    return cases


def gen_walk_generated(rng, tier):
    cases = []
    n = 60 if tier == "quick" else 2000
    for _ in range(n):
        pe = simple_pe(rng)
        gen_img.plant(rng, pe)
        data = pe.build()
        if rng.random() < 0.5:
            gen_img.adversarial_sections(rng, pe, len(data))
            data = pe.build()
        # sprinkle data directories pointing into the sections
        for i in range(16):
            if pe.sections and rng.random() < 0.5:
                s = rng.choice(pe.sections)
                pe.dirs[i] = (s.va + rng.randrange(0, max(s.rs, 1)) & ~3 if rng.random() < 0.8 else rng.choice(EDGE32), rng.choice([0, 8, 20, 28, 40, 0x100, U32, s.rs]))
        data = pe.build()
        cases.append(walk_case(rng, data))
    return cases


def gen_align_stress(rng, tier):
    """C01: typed reads of every width at every residue, on buffers placed at 4, 8 and 12 mod 16
    (file and mapped views): a check made on the rva instead of the address, or on the address where
    the bytes would be mapped instead of where they are stored, hands out a misaligned reference."""
    cases = []
    n = 12 if tier == "quick" else 300
    for _ in range(n):
        pe = simple_pe(rng, nsec=rng.choice([1, 2]))
        # file offsets that are NOT congruent to the virtual addresses modulo 8
        for s in pe.sections:
            if s.rs and rng.random() < 0.5:
                s.prd += rng.choice([2, 4, 6])
        gen_img.plant(rng, pe)
        data = pe.build()
        view = gen_img.load_view(pe, data)
        for buf, k in ((data, "f%d" % pe.bits), (view, "v%d" % pe.bits)):
            if buf is None:
                continue
            for al in (4, 8, 12, 0):
                case = [gen_img.img_line(rng, buf, al, rng.choice("se")), "from_bytes " + k]
                for s in pe.sections[:2]:
                    for off in range(0, 16):
                        r = s.va + off
                        for t in ("u16", "u32", "u64"):
                            case.append("derva %s %s 0x%x" % (k, t, r))
                        case.append("derva_slice %s u64 0x%x 1" % (k, r))
                        case.append("derva_slice_s %s u32 0x%x 0" % (k, r))
                        case.append("slice %s 0x%x 8 8" % (k, r))
                        case.append("deref %s u64 0x%x" % (k, (pe.image_base + r) & ((1 << pe.bits) - 1)))
                cases.append(case)
    return cases


def gen_shared_dag(rng, tier):
    """C03: resource directories whose entries all point at ONE shared child, 16-30 levels deep (no
    cycle, below the depth limit): unfolding it is exponential, so fsck / the tree printer / the
    serializer must give up after a number of directory visits bounded by the bytes actually
    present - also when the data directory declares an absurd Size."""
    from . import gen_res
    cases = []
    n = 6 if tier == "quick" else 60
    for _ in range(n):
        levels = rng.choice([16, 20, 24, 28, 30])
        fan = rng.choice([2, 2, 3])
        sec = bytearray()
        dsize = 16 + 8 * fan
        for i in range(levels):
            last = i == levels - 1
            k = 0 if last else fan
            sec += struct.pack("<IIHHHH", 0, 0, 0, 0, 0, k)
            for e in range(k):
                sec += struct.pack("<II", e + 1, 0x80000000 | (dsize * (i + 1)))
            if last:
                sec += bytes(dsize - 16)
        for size in (None, 0xFFFFFFFF, 0x7FFFFFFF, len(sec) * 16):
            pe = gen_res.pe_with_rsrc(rng, bytes(sec), rng.choice([32, 64]), None, size)
            data = pe.build()
            k = "f%d" % pe.bits
            cases.append([gen_img.img_line(rng, data, 0, "e"), "res %s fsck" % k, "res %s fmt" % k, "json %s" % k, "walk %s" % k])
    return cases
