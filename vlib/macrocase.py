"""C17 batch oracle for the compile-time macro `pelite::pattern!`.

`run_batch(items)` takes literal SOURCE TEXTS (including quotes and escapes), asks the Lean model
(`pat_macro`) what every invocation should expand to, compiles the ones the model accepts into one
scratch crate (`ok`) that prints the expanded atoms, compiles the ones the model rejects into a second
crate (`bad`) and requires a compiler error on every line, and compares.
"""
import bisect, json, os, re, shutil, subprocess, time

from . import build, run

WORKDIR = os.path.join(build.WORK, "macrocase") if not build.ALT else os.path.join(os.path.dirname(build.HARNESS), "macrocase")
MODEL_BIN = build.model_bin()

# Display text of the error kinds: /repo/src/proc-macros/pattern.rs PatError::to_str
KIND_TEXT = {
    "UnpairedHexDigit": "unpaired hex digit",
    "UnknownChar": "unknown character",
    "ManyOverflow": "many range exceeded",
    "ManyRange": "many bounds nonsensical",
    "ManyInvalid": "many invalid syntax",
    "SaveOverflow": "save store overflow",
    "StackError": "stack unbalanced",
    "StackInvalid": "stack must follow jump",
    "UnclosedQuote": "string missing end quote",
    "AlignedOperand": "aligned operand error",
    "ReadOperand": "read operand error",
    "SubPattern": "sub pattern error",
    "SubOverflow": "sub pattern too large",
}

CARGO_TOML = """[package]
name = "%s"
version = "0.1.0"
edition = "2018"

[workspace]

[dependencies]
pelite = { path = "@REPO@" }

[profile.dev]
opt-level = 0
debug = false
"""

HEADER = "#![allow(warnings)]\n#![allow(text_direction_codepoint_in_literal)]\nuse pelite::pattern::Atom;\n"

# copy of the canonical printer of /verif/harness/src/ops_pattern.rs
PRINTER = r'''
fn atom_str(a: &Atom) -> String {
	use pelite::pattern::Atom::*;
	match *a {
		Byte(x) => format!("Byte({})", x),
		Save(x) => format!("Save({})", x),
		Push(x) => format!("Push({})", x),
		Pop => "Pop".to_string(),
		Fuzzy(x) => format!("Fuzzy({})", x),
		Skip(x) => format!("Skip({})", x),
		Back(x) => format!("Back({})", x),
		Rangext(x) => format!("Rangext({})", x),
		Many(x) => format!("Many({})", x),
		Jump1 => "Jump1".to_string(),
		Jump4 => "Jump4".to_string(),
		Ptr => "Ptr".to_string(),
		Pir(x) => format!("Pir({})", x),
		VTypeName => "VTypeName".to_string(),
		Check(x) => format!("Check({})", x),
		Aligned(x) => format!("Aligned({})", x),
		ReadI8(x) => format!("ReadI8({})", x),
		ReadU8(x) => format!("ReadU8({})", x),
		ReadI16(x) => format!("ReadI16({})", x),
		ReadU16(x) => format!("ReadU16({})", x),
		ReadI32(x) => format!("ReadI32({})", x),
		ReadU32(x) => format!("ReadU32({})", x),
		Zero(x) => format!("Zero({})", x),
		Case(x) => format!("Case({})", x),
		Break(x) => format!("Break({})", x),
		Nop => "Nop".to_string(),
	}
}
fn atoms_str(atoms: &[Atom]) -> String {
	if atoms.is_empty() { return "-".to_string(); }
	atoms.iter().map(atom_str).collect::<Vec<_>>().join(",")
}
'''


# `Atom` variants (src/pattern.rs).  `C11_parse_emits` (Thm/C11Frame.lean): the parser — hence the macro, which runs the same
# parser at compile time — can emit every variant except Fuzzy, Back, Pir, VTypeName and Check (hand-written patterns only).
ATOM_VARIANTS = ["Byte", "Save", "Push", "Pop", "Fuzzy", "Skip", "Back", "Rangext", "Many", "Jump1", "Jump4", "Ptr", "Pir", "VTypeName", "Check",
                 "Aligned", "ReadI8", "ReadU8", "ReadI16", "ReadU16", "ReadI32", "ReadU32", "Zero", "Case", "Break", "Nop"]
NEVER_EMITTED = ["Fuzzy", "Back", "Pir", "VTypeName", "Check"]
EMITTED_VARIANTS = [v for v in ATOM_VARIANTS if v not in NEVER_EMITTED]


def atom_variants(answer):
    """the set of `Atom` variant names in a canonical `ok save_len=… atoms=…` answer (the printer of PRINTER / ops_pattern.rs)"""
    m = re.match(r"ok save_len=\d+ atoms=(\S+)\Z", answer or "")
    if not m or m.group(1) == "-":
        return set()
    return set(re.match(r"[A-Za-z0-9]+", a).group(0) for a in m.group(1).split(",") if re.match(r"[A-Za-z0-9]+", a))


# ----------------------------------------------------------------------------------------------
# literal source texts

def escape_literal(s, rng):
    """Rust string literal source text denoting `s`, random mix of the escape styles the macro supports:
    `\\"` and `\\\\` (mandatory), `'` / tab / newline either as backslash form or verbatim, CR always `\\r`,
    everything else verbatim"""
    out = ['"']
    for c in s:
        if c == '"':
            out.append('\\"')
        elif c == "\\":
            out.append("\\\\")
        elif c == "\r":
            out.append("\\r")
        elif c == "'":
            out.append("\\'" if rng.random() < 0.5 else "'")
        elif c == "\t":
            out.append("\\t" if rng.random() < 0.5 else "\t")
        elif c == "\n":
            out.append("\\n" if rng.random() < 0.5 else "\n")
        else:
            out.append(c)
    out.append('"')
    return "".join(out)


def escape_literal_canonical(s):
    """always the backslash forms"""
    m = {'"': '\\"', "\\": "\\\\", "\r": "\\r", "'": "\\'", "\t": "\\t", "\n": "\\n"}
    return '"' + "".join(m.get(c, c) for c in s) + '"'


_RE_STR = re.compile(r'"(?:[^"\\]|\\.)*"(?:[A-Za-z_][A-Za-z0-9_]*)?\Z', re.S)
_RE_SAFE_NONSTR = re.compile(
    r"(?:'(?:[^\\'\n\r\t]|\\[\\'\"ntr0])'"          # char literal
    r"|b'(?:[ -&(-\[\]-~]|\\[\\'\"ntr0])'"          # byte literal
    r"|[0-9][0-9A-Za-z_]*(?:\.[0-9][0-9A-Za-z_]*)?"  # integer / float literal
    r'|b"(?:[ !#-\[\]-~]|\\[\\\'"ntr0])*"'          # byte string
    r'|r"[^"\r]*"|r#"(?:[^"\r]|"(?!#))*"#'          # raw strings
    r")\Z", re.S)
# escapes rustc itself accepts in a (non-byte) string literal; anything else is a lexer error
_RE_RUSTC_ESC = re.compile(r'\\(?:[\\\'"ntr0\n]|x[0-7][0-9a-fA-F]|u\{[0-9a-fA-F]{1,6}\})', re.S)


def lexical_class(text):
    """'str'  : one complete string literal token (optionally suffixed) with escapes rustc accepts
       'lit'  : another well-lexed single literal token (char, byte, number, byte string, raw string)
       'cr'   : contains a carriage return (bare CR is rejected by rustc, CRLF is normalised)
       'bad'  : anything else (would break the lexing of the file, or is not a single literal token)"""
    if "\r" in text:
        return "cr"
    try:
        text.encode("utf-8")
    except UnicodeError:
        return "bad"
    if _RE_STR.match(text):
        body = text[1:text.rindex('"')]
        rest = _RE_RUSTC_ESC.sub("", body)
        if "\\" in rest:
            return "bad"
        for m in re.finditer(r"\\u\{([0-9a-fA-F]+)\}", body):
            v = int(m.group(1), 16)
            if v > 0x10FFFF or 0xD800 <= v <= 0xDFFF:
                return "bad"
        return "str"
    if _RE_SAFE_NONSTR.match(text):
        return "lit"
    return "bad"


# ----------------------------------------------------------------------------------------------
# crates

def _env(target):
    return dict(os.environ, CARGO_NET_OFFLINE="true", RUST_BACKTRACE="0", CARGO_TARGET_DIR=target)


def _prepare(crate_dir, name):
    os.makedirs(os.path.join(crate_dir, "src"), exist_ok=True)
    toml = os.path.join(crate_dir, "Cargo.toml")
    want = (CARGO_TOML % name).replace("@REPO@", build.REPO)
    if not os.path.exists(toml) or open(toml).read() != want:
        with open(toml, "w") as f:
            f.write(want)
    lock = os.path.join(crate_dir, "Cargo.lock")
    if not os.path.exists(lock):
        shutil.copy(os.path.join(build.REPO, "Cargo.lock") if os.path.exists(os.path.join(build.REPO, "Cargo.lock")) else "/repo/Cargo.lock", lock)


def _write_main(crate_dir, prefix, entries, with_main, nonce=0):
    """entries: list of (index, literal text). One `const <prefix><i>` per entry, each starting on its
    own line. Returns (starts, ends, idxs): first / last source line of every entry."""
    # the macro documents that it also accepts a literal forwarded through a macro_rules `$x:expr`
    # capture (it arrives wrapped in a None-delimited group): every third valid literal goes that way
    FWD = "macro_rules! fwd { ($p:expr) => { pelite::pattern!($p) }; }\n"
    parts = [HEADER, FWD]
    line = HEADER.count("\n") + FWD.count("\n") + 1
    starts, ends, idxs = [], [], []
    for n, (i, text) in enumerate(entries):
        if with_main and n % 7 == 3:
            # invoked where the name `pelite` ALSO denotes a local module (a helper module named after the library):
            # the expansion must name the crate absolutely (round-6 change C17-r6-2 dropped the leading `::`)
            item = ("mod shadow_%d { #[allow(dead_code)] mod pelite { pub fn helper() {} } pub const V: &[::pelite::pattern::Atom] = ::pelite::pattern!(%s); }\n"
                    "const %s%d: &[Atom] = shadow_%d::V;\n" % (i, text, prefix, i, i))
        elif with_main and n % 3 == 1:
            item = "const %s%d: &[Atom] = fwd!(%s);\n" % (prefix, i, text)
        else:
            item = "const %s%d: &[Atom] = pelite::pattern!(%s);\n" % (prefix, i, text)
        starts.append(line)
        line += item.count("\n")
        ends.append(line - 1)
        idxs.append(i)
        parts.append(item)
    if with_main:
        parts.append(PRINTER)
        parts.append("fn main() {\n\tlet all: &[(usize, &[Atom])] = &[\n")
        for i, _t in entries:
            parts.append("\t\t(%d, %s%d),\n" % (i, prefix, i))
        # the nonce shows that the binary that ran was built from this very file
        parts.append("\t];\n\tprintln!(\"nonce %d\");\n" % nonce)
        parts.append("\tfor &(i, p) in all.iter() {\n"
                     "\t\tprintln!(\"{} ok save_len={} atoms={}\", i, pelite::pattern::save_len(p), atoms_str(p));\n\t}\n}\n")
    else:
        parts.append("fn main() {}\n")
    with open(os.path.join(crate_dir, "src", "main.rs"), "w", encoding="utf-8", newline="") as f:
        f.write("".join(parts))
    return starts, ends, idxs


def _cargo(crate_dir, name, target, timeout):
    """-> (success, [(line_start, message, help text)] for the errors located in src/main.rs, other error texts, log tail)"""
    p = subprocess.run(["cargo", "build", "--offline", "--message-format=json"], cwd=crate_dir, env=_env(target),
                       stdout=subprocess.PIPE, stderr=subprocess.PIPE, timeout=timeout)
    success = None
    errs, other = [], []
    for l in p.stdout.decode("utf-8", "replace").split("\n"):
        if not l.startswith("{"):
            continue
        try:
            m = json.loads(l)
        except ValueError:
            continue
        if m.get("reason") == "build-finished":
            success = bool(m.get("success"))
        if m.get("reason") != "compiler-message" or (m.get("target") or {}).get("name") != name:
            continue
        mm = m.get("message") or {}
        if mm.get("level") != "error":
            continue
        helps = " | ".join(c.get("message", "") for c in mm.get("children", []))
        spans = [s for s in mm.get("spans", []) if s.get("file_name", "").endswith("main.rs")]
        if not spans:
            if not mm.get("message", "").startswith("aborting due to") and not mm.get("message", "").startswith("could not compile"):
                other.append(mm.get("message", "")[:300])
            continue
        prim = [s for s in spans if s.get("is_primary")] or spans
        for s in prim:
            errs.append((s.get("line_start"), mm.get("message", ""), helps))
    if success is None:
        success = p.returncode == 0
    tail = p.stderr.decode("utf-8", "replace")[-1500:]
    return success and p.returncode == 0, errs, other, tail


def _locate(starts, ends, idxs, line):
    k = bisect.bisect_right(starts, line) - 1
    if k >= 0 and line <= ends[k]:
        return idxs[k]
    return None


def _panic_text(message, helps):
    """the proc macro's panic message, None when the error is not a proc macro panic"""
    if "proc macro panicked" not in message:
        return None
    m = re.search(r"message: (.*)", helps, re.S)
    return m.group(1) if m else ""


def reason_matches(reason, msgs):
    """does one of the compiler's messages for the line fit the model's reason?
    msgs: list of (message, panic text or None)"""
    panics = [p for (_m, p) in msgs if p is not None]
    m = re.match(r"InvalidPattern\((\w+),(\d+)\)\Z", reason)
    if m:
        want_pos, want_txt = "@%s:" % m.group(2), KIND_TEXT.get(m.group(1), "?")
        return any(p.startswith("invalid pattern syntax: Syntax Error ") and want_pos in p and (want_txt + ".") in p for p in panics)
    if reason == "NotStringLiteral":
        return any(p.startswith("expected string literal starting with") or p.startswith("expected a single string literal") for p in panics)
    if reason == "UnicodeEscape":
        return any(p.startswith("unicode escape sequence not supported") for p in panics)
    m = re.match(r"UnknownEscape\((\d+)\)\Z", reason)
    if m:
        return any(p == "unknown escape sequence: " + chr(int(m.group(1))) for p in panics)
    if reason == "Unterminated":
        return any(p.startswith("unexpected end of string literal") for p in panics)
    if reason == "Truncated":
        return any(p == "" for p in panics)
    if reason.startswith("ParserPanic"):
        return any(not p.startswith("invalid pattern syntax") for p in panics)
    return False


def model_macro(items, model_bin=MODEL_BIN):
    """the model's `pat_macro` answers for literal source texts (None for texts that are not encodable)"""
    lines, pos = [], []
    for i, t in enumerate(items):
        try:
            b = t.encode("utf-8")
        except UnicodeError:
            continue
        lines.append("pat_macro " + (b.hex() or "-"))
        pos.append(i)
    out = [None] * len(items)
    if lines:
        ans = run.run_stream([model_bin], lines, 120)
        for i, a in zip(pos, ans):
            out[i] = (a or "none").split(" ## ")[0]
    return out


def run_batch(items, workdir=None, timeout=600):
    """items: literal SOURCE TEXTS (str, including the quotes, exactly as they go into main.rs).
    -> dict(violations=[texts], compiled, rejected, skipped, builds, wall_s, details)"""
    t0 = time.time()
    workdir = workdir or WORKDIR
    target = os.path.join(workdir, "target")
    okdir, baddir = os.path.join(workdir, "ok"), os.path.join(workdir, "bad")
    violations = []
    details = {"model": {}, "compiled": {}, "rejected": {}, "skipped": [], "skipped_lexical": [], "rustc_lexer_rejects": [],
               "suffixed": [], "logs": []}
    res = {"violations": violations, "compiled": 0, "rejected": 0, "skipped": 0, "builds": 0, "wall_s": 0.0,
           "skipped_lexical": details["skipped_lexical"], "details": details}

    def show(i):
        t = items[i]
        return "literal #%d %s" % (i, json.dumps(t[:400]))

    model = model_macro(items)
    ok_items, bad_items = [], []
    for i, t in enumerate(items):
        ma = model[i]
        details["model"][i] = ma
        lc = lexical_class(t)
        if lc == "cr" or ma is None:
            details["skipped"].append(i)
            continue
        if ma.startswith("ok "):
            if lc != "str":
                details["skipped_lexical"].append(i)      # e.g. `"12" "34"`: not a single token
                continue
            if not t.endswith('"'):
                details["suffixed"].append(i)
            ok_items.append(i)
        elif ma.startswith("compile_error "):
            reason = ma[len("compile_error "):]
            if lc == "bad" or reason in ("Unterminated", "Truncated") or (reason == "NotStringLiteral" and lc != "lit"):
                details["skipped_lexical"].append(i)
                continue
            bad_items.append(i)
        else:
            violations.append("%s: the model gave no verdict: %s" % (show(i), ma[:200]))

    with build.Lock("macrocase"):
        # ---- the invocations that have to compile
        if ok_items:
            _prepare(okdir, "macro_ok")
            live = list(ok_items)
            printed = None
            for attempt in range(2):
                nonce = int(time.time() * 1000000) % 1000000007 + attempt
                starts, ends, idxs = _write_main(okdir, "P", [(i, items[i]) for i in live], True, nonce)
                success, errs, other, tail = _cargo(okdir, "macro_ok", target, timeout)
                res["builds"] += 1
                if success:
                    p = subprocess.run([os.path.join(target, "debug", "macro_ok")], stdout=subprocess.PIPE, stderr=subprocess.PIPE,
                                       env=_env(target), timeout=timeout)
                    if p.returncode != 0:
                        violations.append("the crate of compiling invocations ran with exit code %d: %s" % (p.returncode, p.stderr.decode("utf-8", "replace")[-300:]))
                    printed = p.stdout.decode("utf-8", "replace").split("\n")
                    if printed[0] != "nonce %d" % nonce:
                        violations.append("stale binary: the crate of compiling invocations was not rebuilt (%s)" % printed[0][:80])
                        printed = None
                    break
                failed = {}
                for (line, msg, helps) in errs:
                    i = _locate(starts, ends, idxs, line)
                    if i is not None:
                        failed.setdefault(i, []).append((msg + " " + helps)[:300])
                for i, ms in sorted(failed.items()):
                    violations.append("%s: model says `%s` but the invocation does not compile: %s" % (show(i), model[i][:200], " ;; ".join(ms)[:500]))
                if not failed or attempt == 1:
                    violations.append("the crate of compiling invocations does not build: %s %s" % ("; ".join(other)[:500], tail[-500:].replace("\n", " | ")))
                    details["logs"].append(tail)
                    break
                live = [i for i in live if i not in failed]
                if not live:
                    break
            if printed is not None:
                got = {}
                for l in printed:
                    m = re.match(r"(\d+) (.*)\Z", l)
                    if m:
                        got[int(m.group(1))] = m.group(2)
                for i in live:
                    g = got.get(i)
                    details["compiled"][i] = g
                    if g is None:
                        violations.append("%s: no output line from the compiled crate" % show(i))
                    elif g != model[i]:
                        violations.append("%s: macro expands to `%s`, model says `%s`" % (show(i), g[:400], model[i][:400]))
                    else:
                        res["compiled"] += 1
        # ---- the invocations that must not compile
        if bad_items:
            _prepare(baddir, "macro_bad")
            starts, ends, idxs = _write_main(baddir, "B", [(i, items[i]) for i in bad_items], False)
            success, errs, other, tail = _cargo(baddir, "macro_bad", target, timeout)
            res["builds"] += 1
            per = {}
            for (line, msg, helps) in errs:
                i = _locate(starts, ends, idxs, line)
                if i is not None:
                    per.setdefault(i, []).append((msg, _panic_text(msg, helps)))
            if success:
                violations.append("the crate of %d invocations the model rejects compiled without error" % len(bad_items))
            for i in bad_items:
                reason = model[i][len("compile_error "):]
                msgs = per.get(i)
                if not msgs:
                    violations.append("%s: model says `%s` but the compiler reports no error on its line" % (show(i), model[i][:200]))
                    continue
                details["rejected"][i] = [p if p is not None else "rustc: " + m for (m, p) in msgs]
                if all(p is None for (_m, p) in msgs):
                    # rejected by rustc before the macro ran (outside the macro's domain)
                    details["rustc_lexer_rejects"].append(i)
                    res["rejected"] += 1
                elif reason_matches(reason, msgs):
                    res["rejected"] += 1
                else:
                    # the property only says that such a string does not compile; the wording of the
                    # macro's panic is not part of it (a reworded message must not raise an alarm)
                    res["rejected"] += 1
                    details.setdefault("message_differs", []).append(i)
            if not errs and not success:
                violations.append("the crate of rejected invocations failed without located errors: %s %s" % ("; ".join(other)[:500], tail[-500:].replace("\n", " | ")))
    res["skipped"] = len(details["skipped"]) + len(details["skipped_lexical"])
    # coverage record: which `Atom` variants occur in the constants that were really COMPILED by the proc macro and printed
    seen = set()
    for i, g in details["compiled"].items():
        seen |= atom_variants(g)
    res["atom_variants"] = sorted(seen)
    res["wall_s"] = round(time.time() - t0, 2)
    return res
