import json, os, random, re, sys, time

from . import build, run, props

ROOT = build.ROOT
KNOWN = os.path.join(ROOT, "known-findings.txt")
TRUSTED = [
    "Lean 4.33 kernel (axioms allowed: propext, Classical.choice, Quot.sound; no native_decide, no sorry, no own axioms)",
    "Lean compiler for the `model` executable (the compiled definitions are the ones the theorems are about)",
    "hand-written model tied to the Rust code only through the correspondence check (harness, generators, canonical printing, diff)",
    "harness/probe regenerating Generated/Tables.lean from the current source",
    "rustc/LLVM, the Rust standard library and pelite's dependencies (modelled, not verified)",
    "x86-64, little endian, 64-bit usize, buffers below 4 GiB",
]


def load_known():
    """lines: known: property=Cxx match=<regex over 'op-line => impl-answer'> :: text"""
    out = []
    if os.path.exists(KNOWN):
        for line in open(KNOWN):
            line = line.strip()
            m = re.match(r"known:\s+property=(\S+)\s+match=(.+?)\s+::\s+(.*)", line)
            if m:
                out.append({"pid": m.group(1), "re": re.compile(m.group(2)), "text": m.group(3)})
    return out


def write_evidence(pid, ev):
    d = os.path.join(ROOT, "evidence") if not build.ALT else os.path.join(os.path.dirname(build.HARNESS), "evidence")
    os.makedirs(d, exist_ok=True)
    cov = ev.get("coverage", {})
    if cov.get("discharged") == 0:
        # a run whose proofs did not check discharged nothing: the proof-level keys would claim otherwise,
        # so the file falls back to the exploration-style counts of the correspondence run
        cov["proof_obligations_not_discharged"] = cov.pop("obligations", 0)
        cov.pop("discharged")
    with open(os.path.join(d, pid + ".json"), "w") as f:
        json.dump(ev, f, indent=1)


def write_replay(pid, seed, n, lines, extra):
    d = os.path.join(ROOT, "replays", pid) if not build.ALT else os.path.join(os.path.dirname(build.HARNESS), "replays", pid)
    os.makedirs(d, exist_ok=True)
    p = os.path.join(d, "seed%d-%d.txt" % (seed, n))
    with open(p, "w") as f:
        for k, v in extra.items():
            f.write("# %s: %s\n" % (k, v))
        for l in lines:
            f.write(l + "\n")
    return p


def setup():
    ok, log, bindir = build.cargo_build()
    if not ok:
        print(log); return 1
    r = build.regenerate(bindir)
    if not r.get("ok"):
        print(r); return 1
    ok, log, dt = build.lake_build(["PeliteModel", "model"])
    print(log[-3000:])
    return 0 if ok else 1


# position of the RVA argument per operation family (see harness/src/ops_img.rs, ops_typed.rs)
RVA_ARG = {"slice": 2, "r2f": 2, "r2v": 2, "byrva": 2, "derva": 3, "derva_copy": 3, "derva_into": 3, "derva_slice": 3,
           "derva_slice_s": 3, "derva_cstr": 2, "slice_bytes": 2, "derva_slice_f": 3}


def changed_sources(pid):
    """-> (library source files of the checked tree that differ from source-baseline.json, those of them
    that matter for property `pid`: its anchor files, or files no property anchors (shared helpers))"""
    import hashlib
    try:
        base = json.load(open(os.path.join(ROOT, "source-baseline.json")))["files"]
    except Exception:
        return [], []
    cur = {}
    top = os.path.join(build.REPO, "src")
    for r, _, fs in os.walk(top):
        for f in fs:
            p = os.path.join(r, f)
            try:
                cur[os.path.relpath(p, build.REPO)] = hashlib.sha256(open(p, "rb").read()).hexdigest()
            except OSError:
                pass
    changed = sorted(p for p in set(base) | set(cur) if base.get(p) != cur.get(p))
    anchors, anchored_anywhere = set(), set()
    for l in open(os.path.join(ROOT, "properties.jsonl")):
        d = json.loads(l)
        anchored_anywhere |= set(d["anchors"]["files"])
        if d["id"] == pid:
            anchors = set(d["anchors"]["files"])
    skip = ("src/bin/", "src/mmap/")
    touched = [p for p in changed if p in anchors or (p not in anchored_anywhere and not p.startswith(skip))]
    return changed, touched


def check(pid, tier):
    t0 = time.time()
    seed = int(os.environ.get("VERIF_SEED", "20260926"))
    tier = os.environ.get("VERIF_TIER", tier)
    if tier not in ("quick", "thorough"):
        tier = "quick"
    P = props.REGISTRY[pid]
    violations = []          # (text, replay path)
    known_printed = []
    known = [k for k in load_known() if k["pid"] == pid]
    ev = {"property_id": pid, "tier": tier, "seed": seed, "level": "proof", "coverage": {}, "assumptions": TRUSTED, "wall_s": 0.0, "violations": 0}
    cov = ev["coverage"]
    cov["trusted_base"] = TRUSTED

    def finish(rc):
        ev["wall_s"] = round(time.time() - t0, 2)
        ev["violations"] = len(violations)
        write_evidence(pid, ev)
        for text, path in violations:
            print("VIOLATION property=%s replay=%s%s" % (pid, path, text))
        return 1 if violations else rc

    # 1. harness against the current working tree
    ok, log, bindir = build.cargo_build()
    if not ok:
        # the tree does not compile with the harness: nothing can be checked
        p = write_replay(pid, seed, 0, [], {"error": "harness/cargo build failed", "log": log[-2000:].replace("\n", " | ")})
        cov.update({"obligations": 1, "discharged": 0, "checker_cmd": "cargo build", "explanation": "harness build failed"})
        violations.append((" no-failing-input-found", p))
        return finish(1)
    # 2. regenerate tables from the source
    regen = build.regenerate(bindir)
    cov["regenerated"] = regen
    if build.ALT:
        cov["alt_repo"] = build.REPO
    # 3. kernel-check the theorems (incremental), build the driver
    targets = P.thm_modules + ["model"]
    ok, log, dt = build.lake_build(targets)
    checker_cmd = "cd lean && lake build " + " ".join(targets)
    cov["checker_cmd"] = checker_cmd
    names = []
    for m in P.thm_modules:
        names += build.theorem_names(m.split(".")[-1])
    proof_broken = None
    if not ok:
        errs = [l for l in log.split("\n") if l.startswith("error:")]
        proof_broken = "; ".join(errs)[:1500]
        cov.update({"obligations": max(1, len(names)), "discharged": 0, "theorems": names, "build_errors": errs[:20]})
    elif build.FROZEN:
        cov.update({"obligations": len(names), "discharged": len(names), "theorems": names, "frozen_model": True})
    else:
        aud, alog = build.audit(pid, P.thm_modules)
        forb = build.grep_forbidden(pid, P.thm_modules)
        bad = [a for a in aud if not a["ok"]]
        cov.update({"obligations": len(aud), "discharged": len(aud) - len(bad) if not forb else 0,
                    "theorems": aud, "forbidden_tokens": forb})
        if bad or forb:
            proof_broken = "audit failed: %s %s" % ([a["name"] for a in bad], forb[:5])
    if regen.get("alt_differs") and not proof_broken:
        # scratch-checkout mode: a table regenerated from that source differs from the one the theorems were
        # checked against (in /repo mode the file is rewritten and re-proved); it matters for this property
        # when one of its theorem modules imports the generated module
        closure = set(os.path.relpath(p, build.LEAN)[:-5].replace(os.sep, ".") for p in build.import_closure(pid, P.thm_modules))
        hit = [m for m in regen["alt_differs"] if m in closure]
        if hit:
            proof_broken = "regenerated from %s: %s differ(s) from the generated module(s) the theorems were checked against (see %s)" % (
                build.REPO, ", ".join(hit), os.path.dirname(build.HARNESS))
    if tier == "thorough" and ok:
        # independent re-check of the compiled theorem modules
        lc = []
        for m in P.thm_modules:
            rc, out, dt2 = build.sh(["lake", "env", "leanchecker", m], cwd=build.LEAN, timeout=3600)
            lc.append({"module": m, "rc": rc, "wall_s": round(dt2, 1), "out": out[-300:]})
            if rc != 0:
                proof_broken = "leanchecker rejected %s" % m
        cov["leanchecker"] = lc
        cov["checker_cmd"] += " && lake env leanchecker " + " ".join(P.thm_modules)

    # 4. correspondence: corpus first, then generated cases
    rng = random.Random(seed)
    cases = []
    cdir = os.path.join(ROOT, "corpus", pid)
    ncorpus = 0
    if os.path.isdir(cdir):
        for fn in sorted(os.listdir(cdir)):
            lines = [l.rstrip("\n") for l in open(os.path.join(cdir, fn)) if l.strip() and not l.startswith("#")]
            if lines:
                cases.append(lines); ncorpus += 1
    gen_stats = {}
    gen_errors = {}
    gname = lambda g: "%s.%s" % (getattr(g, "__module__", "?").split(".")[-1], g.__name__)
    # quick tier: every generator runs with several sub-seeds (its enumerated part comes out identical
    # each time and is kept once, its random part is multiplied); all derived from the one seed
    if "PeliteModel.Thm.ImageLayout" in P.thm_modules:
        # the layout theorem is one of this property's obligations: every struct value field by field through the
        # real struct and through the golden offsets, so that a layout change comes with a concrete failing input
        from . import layoutgen
        try:
            cases += layoutgen.gen_fields(rng, tier)
        except Exception as ex:
            gen_errors["layoutgen.gen_fields"] = repr(ex)[:300]
    reps = int(os.environ.get("VERIF_REPS", "4" if tier == "quick" else "1"))
    # change-directed budget: source files that differ from the recorded baseline and are anchored in this
    # property (or are shared helpers) multiply the random part of the quick tier again — more search where
    # the code changed, no change of any verdict rule
    changed, touched = changed_sources(pid)
    cov["changed_since_baseline"] = changed
    if touched and tier == "quick" and "VERIF_REPS" not in os.environ:
        reps = 16
    cov["budget_escalated"] = bool(touched and reps == 16)
    seen_cases = set()
    for g in P.gens:
        for rep in range(reps):
            try:
                cs = g(rng if rep == 0 else random.Random("%d/%s/%d" % (seed, gname(g), rep)), tier)
            except Exception as ex:      # a broken generator must not take the whole check down
                gen_errors[gname(g)] = repr(ex)[:300]
                cs = []
            new = []
            for c in cs:
                key = hash(tuple(c))
                if key not in seen_cases:
                    seen_cases.add(key)
                    new.append(c)
            gen_stats[gname(g)] = gen_stats.get(gname(g), 0) + len(new)
            cases += new
    # protocol lint: an RVA argument is a u32 on both sides; a generator that emits more (the harness would
    # truncate, the model would not) is a generator bug, not a disagreement — drop the line, count it
    n_lint = 0
    for c in cases:
        for i in range(len(c) - 1, -1, -1):
            w = c[i].split(" ")
            pos = RVA_ARG.get(w[0])
            if pos is not None and len(w) > pos:
                try:
                    if int(w[pos], 0) >= (1 << 32):
                        del c[i]; n_lint += 1
                except ValueError:
                    pass
    cov["malformed_ops_dropped"] = n_lint
    model_bin = build.model_bin()
    impl_bin = os.path.join(bindir, "impl")
    if not os.path.exists(model_bin):
        # driver could not be built (a model module is broken): correspondence impossible
        impl_ans = run.run_cases([impl_bin], cases, op_timeout=10, jobs=12)
        model_ans = [[None] * len(c) for c in cases]
    else:
        impl_ans = run.run_cases([impl_bin], cases, op_timeout=10 if tier == "quick" else 30, jobs=12)
        model_ans = run.run_cases([model_bin], cases, op_timeout=60, jobs=12)

    nops = 0
    n_skipped = 0
    n_model_timeout = 0
    n_oversized = 0
    hist = {}
    distinct = set()
    samples = []
    disagreements = []
    for ci, case in enumerate(cases):
        if hasattr(P, "begin_case"):
            P.begin_case(case)
        for oi, op in enumerate(case):
            if op.startswith("img "):
                continue
            ia = impl_ans[ci][oi]
            if ia == "skipped" or model_ans[ci][oi] == "skipped":
                n_skipped += 1          # crash budget of the runner exhausted for this stream (vlib/run.py)
                continue
            nops += 1
            ma, spec = props.split_model(model_ans[ci][oi])
            if ma == "timeout" and props.klass(ia) not in ("panic", "crash", "timeout", "ub", "none"):
                # the executable model did not finish this operation within its time limit (a search the compiled
                # Lean code runs orders of magnitude slower than the Rust code): nothing to compare, which says
                # nothing about the implementation — counted, not judged (an abnormal end of the implementation
                # is still judged below)
                n_model_timeout += 1
                continue
            if props.klass(ia) not in ("panic", "crash", "timeout", "ub", "none") and ma is not None:
                # answers beyond the caps of the machinery (harness: 4 MiB, marked `…CUT(n bytes)`; runner: 8 MiB,
                # `other oversized-answer`): a model answer the runner dropped cannot be compared at all; an
                # implementation answer the harness cut is compared on the part that exists
                if ma.startswith("other oversized-answer"):
                    n_oversized += 1
                    continue
                cut = ia.find(" …CUT(") if ia else -1
                if cut >= 0 and ma.startswith(ia[:cut]):
                    n_oversized += 1
                    continue
            fam = op.split(" ", 1)[0]
            k = fam + ":" + props.klass(ia)
            hist[k] = hist.get(k, 0) + 1
            if P.nontrivial(op, ia or ""):
                distinct.add((ci if case[0].startswith("img ") else -1, op))
            if len(samples) < 6 and (nops % 97 == 1):
                samples.append({"op": op[:300], "impl": (ia or "")[:300], "model": (ma or "")[:300], "spec": spec[:300]})
            j = P.judge(op, ia or "none", ma or "none", spec)
            if j:
                sig = "%s => %s ## %s" % (op, ia, spec)
                kf = next((k for k in known if k["re"].search(sig)), None)
                if kf:
                    if kf["text"] not in known_printed:
                        known_printed.append(kf["text"])
                    continue
                disagreements.append((ci, oi, j))
    cov["correspondence"] = {
        "evaluations": nops, "distinct_nontrivial": len(distinct), "corpus_cases": ncorpus,
        "rule": "cases from the seeded generators %s plus corpus; non-trivial = the implementation returned a non-empty, non-error answer; distinct = distinct (image, operation line) pairs" % list(gen_stats),
        "generated": gen_stats, "generator_errors": gen_errors, "outcomes": hist, "disagreements": len(disagreements),
    }
    cov["evaluations"] = nops
    cov["operations_skipped_after_crash_budget"] = n_skipped
    cov["operations_unjudged_model_timeout"] = n_model_timeout
    cov["operations_beyond_answer_caps"] = n_oversized
    cov["distinct_nontrivial"] = len(distinct)
    cov["samples"] = samples
    cov["known_findings_printed"] = known_printed
    if hasattr(P, "stats"):
        # how many operations each direct oracle of the property actually judged (and why it skipped the others)
        cov["oracle_judged"] = P.stats()

    # optimized build (properties that quantify over both build profiles, C01/C02): the same operation
    # lines through a --release harness, judged by the property's `release_judge` (the direct oracle
    # on the optimized build's answer; C01 also reports results that differ between the profiles)
    if getattr(P, "release_check", False) and os.environ.get("VERIF_RELEASE") != "0":
        okr, logr, bindir_r = build.cargo_build(release=True)
        rel = {"built": okr}
        if okr:
            rel_ans = run.run_cases([os.path.join(bindir_r, "impl")], cases, op_timeout=30, jobs=12)
            ndiff = 0
            for ci, case in enumerate(cases):
                for oi, op in enumerate(case):
                    if op.startswith("img "):
                        continue
                    a, b = impl_ans[ci][oi] or "none", rel_ans[ci][oi] or "none"
                    rj = P.release_judge(op, a, b) if hasattr(P, "release_judge") else ("checked and optimized builds answer differently" if P.project(op, a) != P.project(op, b) else None)
                    if rj:
                        kf = next((k for k in known if k["re"].search("%s => %s ## " % (op, a)) or k["re"].search("%s => %s ## " % (op, b))), None)
                        if kf:
                            if kf["text"] not in known_printed:
                                known_printed.append(kf["text"])
                            continue
                        ndiff += 1
                        if ndiff <= 3:
                            disagreements.append((ci, oi, {"kind": "spec", "text": "optimized build: %s: debug=%s release=%s" % (rj, a[:200], b[:200])}))
            rel["compared"] = nops
            rel["differences"] = ndiff
        cov["release_profile"] = rel

    # batch oracles that do not fit the one-line-per-operation protocol (e.g. C17: a generated crate
    # with pattern!() invocations compiled against /repo)
    extra_viol = []
    if hasattr(P, "extra_checks"):
        try:
            extra_viol, extra_stats = P.extra_checks(rng, tier, bindir)
        except Exception as ex:          # the batch machinery itself broke: not silently ignored
            extra_viol, extra_stats = ["extra_checks raised %r" % (ex,)], {}
        cov["extra_checks"] = extra_stats
        cov["correspondence"]["extra_violations"] = len(extra_viol)

    for text in known_printed:
        print("KNOWN-FINDING: property=%s %s" % (pid, text))

    # 5. verdict
    reported = 0
    for ci, oi, j in disagreements[:3]:
        case = cases[ci]
        ctx = []
        for q in range(oi - 1, -1, -1):
            if case[q].startswith("img "):
                ctx = [case[q]] + [l for l in case[q + 1:oi] if l.startswith("img_to_")]
                break
        lines = ctx + [case[oi]]
        found_input = j["kind"] == "spec" or (P.determined and j.get("hyp") in ("1", None))
        p = write_replay(pid, seed, reported, lines, {"property": pid, "kind": j["kind"], "detail": j["text"][:1000],
                         "impl": (impl_ans[ci][oi] or "")[:1000], "model": (model_ans[ci][oi] or "")[:1000],
                         "replay": "./check replay <this file>"})
        violations.append(("" if found_input else " no-failing-input-found", p))
        reported += 1
    for i, text in enumerate(extra_viol[:3]):
        p = write_replay(pid, seed, 100 + i, [], {"property": pid, "kind": "spec", "detail": text[:3000]})
        violations.append(("", p))
    if proof_broken and not violations:
        p = write_replay(pid, seed, 0, [], {"property": pid, "kind": "proof", "broken": proof_broken,
                         "theorems": ", ".join(names)[:1500], "note": "no disagreeing input was found by the correspondence run of this tier"})
        violations.append((" no-failing-input-found", p))
    elif proof_broken:
        cov["proof_broken"] = proof_broken
    return finish(0)


def replay(path):
    lines = [l.rstrip("\n") for l in open(path) if l.strip() and not l.startswith("#")]
    ok, log, bindir = build.cargo_build()
    if not ok:
        print(log[-2000:]); return 1
    build.lake_build(["model"])
    ia = run.run_stream([os.path.join(bindir, "impl")], lines, 30)
    ma = run.run_stream([os.path.join(build.LEAN, ".lake", "build", "bin", "model")], lines, 120)
    for l, a, b in zip(lines, ia, ma):
        m, s = props.split_model(b)
        print("op    %s\nimpl  %s\nmodel %s\nspec  %s\n" % (l[:2000], a, m, s))
    return 0


def main(argv):
    if not argv:
        print(__doc__); return 2
    if argv[0] == "setup":
        return setup()
    if argv[0] == "replay":
        return replay(argv[1])
    pid = argv[0]
    tier = argv[1] if len(argv) > 1 else "quick"
    if pid not in props.REGISTRY:
        print("unknown property", pid); return 2
    return check(pid, tier)
