"""A small deterministic PE builder used by the generators.  Everything is explicit so that the
corrupter can set any field; nothing here is an oracle (the oracle is the Lean model/spec)."""
import struct

HDR32_MAGIC, HDR64_MAGIC = 0x10B, 0x20B


class Section:
    def __init__(self, name=b".text", va=0x1000, vs=0x200, prd=0x200, rs=0x200, chars=0x60000020, data=None):
        self.name, self.va, self.vs, self.prd, self.rs, self.chars, self.data = name, va, vs, prd, rs, chars, data

    def pack(self):
        return struct.pack("<8sIIIIIIHHI", self.name[:8].ljust(8, b"\0"), self.vs & 0xFFFFFFFF, self.va & 0xFFFFFFFF,
                           self.rs & 0xFFFFFFFF, self.prd & 0xFFFFFFFF, 0, 0, 0, 0, self.chars & 0xFFFFFFFF)


class PE:
    """All header fields are plain attributes; build() lays the file out."""
    def __init__(self, bits=32):
        self.bits = bits
        self.e_lfanew = 0x40
        self.dos_stub = b""              # bytes between the DOS header and e_lfanew (Rich header etc.)
        self.machine = 0x14C if bits == 32 else 0x8664
        self.magic = HDR32_MAGIC if bits == 32 else HDR64_MAGIC
        self.image_base = 0x400000 if bits == 32 else 0x140000000
        self.entry = 0x1000
        self.base_of_code = 0x1000
        self.size_of_code = 0x200
        self.section_align = 0x1000
        self.file_align = 0x200
        self.size_of_image = None        # computed if None
        self.size_of_headers = None
        self.checksum = 0
        self.num_rva = 16
        self.dirs = [(0, 0)] * 16        # (rva, size)
        self.size_of_optional = None     # computed if None
        self.num_sections = None
        self.sections = []
        self.file_len = None             # truncate / pad the file to this length
        self.signature = 0x4550
        self.e_magic = 0x5A4D
        self.fill = 0

    def opt_size(self):
        return 96 if self.magic != HDR64_MAGIC else 112

    def build(self):
        opt_fixed = self.opt_size()
        nd = min(self.num_rva, 16) if self.num_rva <= 16 else 16
        soh_opt = self.size_of_optional if self.size_of_optional is not None else opt_fixed + 8 * nd
        nsec = self.num_sections if self.num_sections is not None else len(self.sections)
        sec_table = self.e_lfanew + 24 + soh_opt
        hdr_end = sec_table + 40 * len(self.sections)
        size_of_headers = self.size_of_headers if self.size_of_headers is not None else (hdr_end + self.file_align - 1) // self.file_align * self.file_align
        if self.size_of_image is not None:
            size_of_image = self.size_of_image
        else:
            top = size_of_headers
            for s in self.sections:
                top = max(top, (s.va + max(s.vs, s.rs)) & 0xFFFFFFFF if s.va + max(s.vs, s.rs) < 0x10000000 else top)
            size_of_image = (top + self.section_align - 1) // self.section_align * self.section_align
        dos = bytearray(64)
        struct.pack_into("<H", dos, 0, self.e_magic)
        struct.pack_into("<I", dos, 60, self.e_lfanew & 0xFFFFFFFF)
        out = bytearray(dos)
        out += self.dos_stub
        if self.e_lfanew > 0x100000:
            # absurd e_lfanew: only the DOS header field says so, nothing is laid out there
            self.layout = {"sec_table": 0, "size_of_headers": 0x200, "size_of_image": 0x1000, "nt_end": 0, "opt": 0}
            out += bytes(0x200 - len(out)) if len(out) < 0x200 else b""
            if self.file_len is not None and 0 <= self.file_len < (1 << 20):
                out = out[:self.file_len] if self.file_len < len(out) else out + bytes(self.file_len - len(out))
            return bytes(out)
        if len(out) < self.e_lfanew:
            out += bytes([self.fill]) * (self.e_lfanew - len(out))
        # NT headers may overlap the DOS header (tiny PE): write at e_lfanew
        nt = bytearray()
        nt += struct.pack("<I", self.signature)
        nt += struct.pack("<HHIIIHH", self.machine, nsec & 0xFFFF, 0x5F000000, 0, 0, soh_opt & 0xFFFF, 0x2022 if self.bits == 64 else 0x2102)
        if self.magic != HDR64_MAGIC:
            nt += struct.pack("<HBBIIIIIIIIIHHHHHHIIIIHHIIIIII", self.magic, 14, 0, self.size_of_code, 0x200, 0, self.entry, self.base_of_code, 0x2000,
                              self.image_base & 0xFFFFFFFF, self.section_align, self.file_align, 6, 0, 0, 0, 6, 0, 0, size_of_image & 0xFFFFFFFF,
                              size_of_headers & 0xFFFFFFFF, self.checksum, 3, 0x8140, 0x100000, 0x1000, 0x100000, 0x1000, 0, self.num_rva & 0xFFFFFFFF)
        else:
            nt += struct.pack("<HBBIIIIIQIIHHHHHHIIIIHHQQQQII", self.magic, 14, 0, self.size_of_code, 0x200, 0, self.entry, self.base_of_code,
                              self.image_base & 0xFFFFFFFFFFFFFFFF, self.section_align, self.file_align, 6, 0, 0, 0, 6, 0, 0, size_of_image & 0xFFFFFFFF,
                              size_of_headers & 0xFFFFFFFF, self.checksum, 3, 0x8160, 0x100000, 0x1000, 0x100000, 0x1000, 0, self.num_rva & 0xFFFFFFFF)
        for i in range(nd):
            r, s = self.dirs[i] if i < len(self.dirs) else (0, 0)
            nt += struct.pack("<II", r & 0xFFFFFFFF, s & 0xFFFFFFFF)
        if len(out) < self.e_lfanew + len(nt):
            out += bytes(self.e_lfanew + len(nt) - len(out))
        out[self.e_lfanew:self.e_lfanew + len(nt)] = nt
        # section table
        st = b"".join(s.pack() for s in self.sections)
        if len(out) < sec_table + len(st):
            out += bytes([self.fill]) * (sec_table + len(st) - len(out))
        out[sec_table:sec_table + len(st)] = st
        # raw data
        for s in self.sections:
            if s.data is not None and s.prd < 0x1000000:
                if len(out) < s.prd + len(s.data):
                    out += bytes([self.fill]) * (s.prd + len(s.data) - len(out))
                out[s.prd:s.prd + len(s.data)] = s.data
        if self.file_len is not None:
            if self.file_len < len(out):
                out = out[:self.file_len]
            else:
                out += bytes([self.fill]) * (self.file_len - len(out))
        self.layout = {"sec_table": sec_table, "size_of_headers": size_of_headers, "size_of_image": size_of_image, "nt_end": self.e_lfanew + 24 + opt_fixed, "opt": self.e_lfanew + 24}
        return bytes(out)


def rand_bytes(rng, n):
    return bytes(rng.getrandbits(8) for _ in range(n))


def simple_pe(rng, bits=None, nsec=None, small=True):
    """A well-formed image with `nsec` sections of assorted VirtualSize/SizeOfRawData relations."""
    bits = bits or rng.choice([32, 64])
    pe = PE(bits)
    pe.e_lfanew = rng.choice([0x40, 0x40, 0x80, 0x44, 0xC8, 0x48])
    fa = rng.choice([0x200, 0x100, 0x40, 0x20]) if small else 0x200
    sa = rng.choice([0x1000, 0x1000, 0x200, 0x100]) if small else 0x1000
    if sa < fa:
        sa = fa
    pe.file_align, pe.section_align = fa, sa
    nsec = rng.choice([0, 1, 2, 3, 4, 6]) if nsec is None else nsec
    pe.num_rva = rng.choice([16, 16, 16, 0, 2, 5, 13, 17, 0xFFFFFFFF])
    hdr_end = pe.e_lfanew + 24 + pe.opt_size() + 8 * min(pe.num_rva, 16) + 40 * nsec
    prd = (hdr_end + fa - 1) // fa * fa
    va = max(sa, (prd + sa - 1) // sa * sa)
    for i in range(nsec):
        rs = rng.choice([0, fa, fa, 2 * fa, 3 * fa])
        rel = rng.random()
        if rel < 0.3:
            vs = rs
        elif rel < 0.55:
            vs = max(0, rs - rng.choice([1, 3, fa // 2, rs]))         # VirtualSize < SizeOfRawData
        elif rel < 0.85:
            vs = rs + rng.choice([1, 5, fa, sa, 2 * sa])              # virtual-only tail
        else:
            vs = 0
        data = rand_bytes(rng, rs)
        s = Section(name=rng.choice([b".text", b".rdata", b".data", b".rsrc", b".reloc", b"12345678", b"", b"a\0b", b"UPX\x001", b"\0\0\0\0tail", b"\xfe\xff", b"caf\xc3\xa9", b"1234567\xc3"]),
                    va=va, vs=vs, prd=prd if rs else rng.choice([0, prd]), rs=rs, data=data)
        pe.sections.append(s)
        prd += rs
        va += (max(vs, rs, 1) + sa - 1) // sa * sa
    pe.base_of_code = pe.sections[0].va if pe.sections else 0x1000
    pe.size_of_code = pe.sections[0].vs if pe.sections else 0
    return pe
