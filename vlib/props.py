"""Property registry: theorem modules, generators, projections and verdict rules per property."""
import re
from . import gen_pure, gen_img


def split_model(line):
    """model line = '<answer> ## <spec part>'"""
    if line is None:
        return None, ""
    if " ## " in line:
        a, s = line.split(" ## ", 1)
        return a, s
    return line, ""


def klass(ans):
    """outcome class of an answer line"""
    if ans is None:
        return "none"
    w = ans.split(" ", 1)[0]
    if w in ("ok", "err", "panic", "timeout", "crash", "diverge", "ub", "bad-op"):
        return w
    return "other"


def spec_field(spec, key):
    m = re.search(r"(?:^| )%s=(\S*)" % re.escape(key), spec)
    return m.group(1) if m else None


class Prop:
    """Base: exact comparison of implementation and model answers for the listed families."""
    pid = None
    title = ""
    thm_modules = []          # lake targets holding the property's theorems
    gens = []                 # generator functions (rng, tier) -> cases
    determined = True         # the compared projection is a function of the input under the hypotheses
    technique = "Lean 4 theorem over an executable model + differential correspondence with the Rust code"

    def project(self, op, ans):
        """what of an answer this property constrains (default: everything; panic / crash / hang
        are compared by class, the message and site are diagnostics only)"""
        k = klass(ans)
        if op.split(" ", 1)[0] in ("json", "walk", "iter"):
            # whole-API operations: the model only knows the outcome class (their detailed oracles
            # live in the cross-cutting properties, C18 and C19)
            if ans.startswith("noimg"):
                return "noimg"
            if op.startswith("iter ") and k in ("ok", "err", "other"):
                # the model only knows whether the view exists; an absent / unreadable directory
                # (`err Null`, `none`) is an answer like any other, judged by the in-harness deque
                return "answered"
            return k
        if k == "panic":
            return "panic"
        if k in ("crash", "ub"):
            return "crash"
        if k in ("timeout", "diverge"):
            return "diverge"
        return ans

    def judge(self, op, impl, model, spec):
        """-> None (fine) | dict(kind=..., text=...) ; kind in
        'spec'  : implementation contradicts the executable specification on an in-hypothesis input
        'model' : implementation and model disagree (correspondence broken)"""
        hyp = spec_field(spec, "hyp")
        r = self.oracle(op, impl, model, spec)
        if r:
            return {"kind": "spec", "text": r}
        if not self.agree(op, impl, model):
            return {"kind": "model", "text": "impl=%s model=%s" % (impl[:300], model[:300]), "hyp": hyp}
        return None

    # Error kinds the property's statement names (None = every kind matters).  Where the model answers
    # with a kind the statement does NOT name, the statement only says that the operation fails, so
    # any error from the implementation agrees (a change of an unspecified error kind is not a
    # violation); a named kind, a value, and success-vs-failure are always compared exactly.
    named_errors = None

    def agree(self, op, impl, model):
        pi, pm = self.project(op, impl), self.project(op, model)
        if pi == pm:
            return True
        if self.named_errors is not None and pi.startswith("err ") and pm.startswith("err "):
            km = pm.split(" ")[1] if " " in pm else ""
            if km not in self.named_errors:
                return True
        return False

    def oracle(self, op, impl, model, spec):
        return None

    def nontrivial(self, op, impl):
        return impl not in ("ok", "ok []") and not impl.startswith("err")


class C20(Prop):
    pid = "C20"
    title = "string enumerator"
    thm_modules = ["PeliteModel.Thm.C20"]
    gens = [gen_pure.gen_strings]

    def oracle(self, op, impl, model, spec):
        if spec_field(spec, "hyp") != "1":
            return None
        s = spec_field(spec, "spec")
        m = re.match(r"ok (\[\S*\]) fused=(\d)", impl)
        if not m:
            return "enumerator did not return a list: %s" % impl[:200]
        if m.group(1) != s:
            return "reported runs %s differ from the qualifying maximal runs %s" % (m.group(1)[:300], s[:300])
        if m.group(2) != "1":
            return "iterator not fused at the end"
        return None

    def nontrivial(self, op, impl):
        return not impl.startswith("ok [] ")


class C14(Prop):
    pid = "C14"
    title = "base relocations"
    thm_modules = ["PeliteModel.Thm.C14"]
    gens = [gen_pure.gen_relocs_raw, gen_pure.gen_relocs_build]

    def oracle(self, op, impl, model, spec):
        if op.startswith("relocs_raw"):
            if "foreach_same=0" in impl or "fold_same=0" in impl:
                return "block iterator and for_each/fold disagree: %s" % impl[:300]
        if op.startswith("relocs_build") and spec_field(spec, "hyp") == "1":
            m = re.search(r"flat=(\[\S*\])", impl)
            want = spec_field(spec, "input")
            if not m or m.group(1) != want:
                return "parsing the built directory gives %s, not the input pairs %s" % (m.group(1)[:300] if m else impl[:200], want[:300])
        return None

    def nontrivial(self, op, impl):
        return impl.startswith("ok") and "blocks=[]" not in impl and impl != "ok -"


class C04(Prop):
    named_errors = {"ZeroFill", "Bounds"}       # "report zero-fill", "report out-of-bounds"
    pid = "C04"
    title = "file views resolve RVAs through the section table"
    thm_modules = ["PeliteModel.Thm.C04"]
    gens = [gen_img.gen_c04, gen_img.gen_c04_firstmatch]

    def nontrivial(self, op, impl):
        return impl.startswith("ok ")


class C07(Prop):
    named_errors = {"PeMagic"}                  # "rejected with the dedicated wrong-format error"
    pid = "C07"
    title = "headers"
    thm_modules = ["PeliteModel.Thm.C07", "PeliteModel.Thm.C07Checksum"]
    gens = [gen_img.gen_c07_corpus, gen_img.gen_c07, gen_img.gen_c07_boundaries]

    def oracle(self, op, impl, model, spec):
        if op.startswith("hdr ") and impl.startswith("ok "):
            std = spec_field(spec, "stdcsum")
            m = re.search(r" csum=(\d+)", impl)
            if std is not None and m and m.group(1) != std:
                return "computed checksum %s differs from the standard PE checksum %s of the buffer" % (m.group(1), std)
        return None

    def nontrivial(self, op, impl):
        return impl.startswith("ok ")


class C05(Prop):
    named_errors = {"Null"}                     # "a zero address always yields the null error"; read vs slice: see oracle
    pid = "C05"
    title = "VA / RVA / typed reads"
    thm_modules = ["PeliteModel.Thm.C05"]
    gens = [gen_img.gen_c05]

    def begin_case(self, case):
        self.last_slice = None

    def oracle(self, op, impl, model, spec):
        # "reading at virtual address B+r returns exactly what slicing at RVA r returns (same bytes,
        # same error class)": the generator issues `slice k r n a` immediately followed by
        # `read k B+r n a`; both answers come from the implementation
        w = op.split(" ")
        if w[0] == "slice":
            self.last_slice = (w[1], w[3], w[4], impl, model)
        elif w[0] == "read" and self.last_slice and self.last_slice[:3] == (w[1], w[3], w[4]):
            k, n, a, s_impl, s_model = self.last_slice
            self.last_slice = None
            # only where the model says the two paths denote the same request (r in (0, SizeOfImage))
            if s_model == model and klass(model) in ("ok", "err") and self.project(op, s_impl) != self.project(op, impl):
                return "read at B+r answered %s but slice at r answered %s" % (impl[:150], s_impl[:150])
        else:
            self.last_slice = None
        return None

    def nontrivial(self, op, impl):
        return impl.startswith("ok ")


class C06(Prop):
    named_errors = set()
    pid = "C06"
    title = "file <-> view conversion"
    thm_modules = ["PeliteModel.Thm.C06", "PeliteModel.Thm.C06RoundTrip"]
    gens = [gen_img.gen_c06]

    def nontrivial(self, op, impl):
        return impl.startswith("ok ")


REGISTRY = {p.pid: p for p in [C04(), C05(), C06(), C07(), C14(), C20()]}


def _load_plugins():
    """vlib/props_<m>.py modules define PROPS = [Prop instances]; later definitions override earlier ones"""
    import glob, importlib, os
    here = os.path.dirname(os.path.abspath(__file__))
    for fn in sorted(glob.glob(os.path.join(here, "props_*.py"))):
        mod = importlib.import_module("vlib." + os.path.basename(fn)[:-3])
        for p in getattr(mod, "PROPS", []):
            REGISTRY[p.pid] = p


_load_plugins()
