"""Property registry: theorem modules, generators, projections and verdict rules per property."""
import re
from . import gen_pure, gen_img


def split_model(line):
    """model line = '<answer> ## <spec part>'"""
    if line is None:
        return None, ""
    if " ## " in line:
        a, s = line.split(" ## ", 1)
        return a, s
    return line, ""


def klass(ans):
    """outcome class of an answer line"""
    if ans is None:
        return "none"
    w = ans.split(" ", 1)[0]
    if w in ("ok", "err", "panic", "timeout", "crash", "diverge", "ub", "bad-op"):
        return w
    return "other"


def spec_field(spec, key):
    m = re.search(r"(?:^| )%s=(\S*)" % re.escape(key), spec)
    return m.group(1) if m else None


class Prop:
    """Base: exact comparison of implementation and model answers for the listed families."""
    pid = None
    title = ""
    thm_modules = []          # lake targets holding the property's theorems
    gens = []                 # generator functions (rng, tier) -> cases
    determined = True         # the compared projection is a function of the input under the hypotheses
    technique = "Lean 4 theorem over an executable model + differential correspondence with the Rust code"

    def project(self, op, ans):
        """what of an answer this property constrains (default: everything; panic / crash / hang
        are compared by class, the message and site are diagnostics only)"""
        k = klass(ans)
        if k == "panic":
            return "panic"
        if k in ("crash", "ub"):
            return "crash"
        if k in ("timeout", "diverge"):
            return "diverge"
        return ans

    def judge(self, op, impl, model, spec):
        """-> None (fine) | dict(kind=..., text=...) ; kind in
        'spec'  : implementation contradicts the executable specification on an in-hypothesis input
        'model' : implementation and model disagree (correspondence broken)"""
        hyp = spec_field(spec, "hyp")
        r = self.oracle(op, impl, model, spec)
        if r:
            return {"kind": "spec", "text": r}
        if self.project(op, impl) != self.project(op, model):
            return {"kind": "model", "text": "impl=%s model=%s" % (impl[:300], model[:300]), "hyp": hyp}
        return None

    def oracle(self, op, impl, model, spec):
        return None

    def nontrivial(self, op, impl):
        return impl not in ("ok", "ok []") and not impl.startswith("err")


class C20(Prop):
    pid = "C20"
    title = "string enumerator"
    thm_modules = ["PeliteModel.Thm.C20"]
    gens = [gen_pure.gen_strings]

    def oracle(self, op, impl, model, spec):
        if spec_field(spec, "hyp") != "1":
            return None
        s = spec_field(spec, "spec")
        m = re.match(r"ok (\[\S*\]) fused=(\d)", impl)
        if not m:
            return "enumerator did not return a list: %s" % impl[:200]
        if m.group(1) != s:
            return "reported runs %s differ from the qualifying maximal runs %s" % (m.group(1)[:300], s[:300])
        if m.group(2) != "1":
            return "iterator not fused at the end"
        return None

    def nontrivial(self, op, impl):
        return not impl.startswith("ok [] ")


class C14(Prop):
    pid = "C14"
    title = "base relocations"
    thm_modules = ["PeliteModel.Thm.C14"]
    gens = [gen_pure.gen_relocs_raw, gen_pure.gen_relocs_build]

    def oracle(self, op, impl, model, spec):
        if op.startswith("relocs_raw"):
            if "foreach_same=0" in impl or "fold_same=0" in impl:
                return "block iterator and for_each/fold disagree: %s" % impl[:300]
        if op.startswith("relocs_build") and spec_field(spec, "hyp") == "1":
            m = re.search(r"flat=(\[\S*\])", impl)
            want = spec_field(spec, "input")
            if not m or m.group(1) != want:
                return "parsing the built directory gives %s, not the input pairs %s" % (m.group(1)[:300] if m else impl[:200], want[:300])
        return None

    def nontrivial(self, op, impl):
        return impl.startswith("ok") and "blocks=[]" not in impl and impl != "ok -"


class C04(Prop):
    pid = "C04"
    title = "file views resolve RVAs through the section table"
    thm_modules = ["PeliteModel.Thm.C04"]
    gens = [gen_img.gen_c04]

    def nontrivial(self, op, impl):
        return impl.startswith("ok ")


class C07(Prop):
    pid = "C07"
    title = "headers"
    thm_modules = ["PeliteModel.Thm.C07", "PeliteModel.Thm.C07Checksum"]
    gens = [gen_img.gen_c07_corpus, gen_img.gen_c07, gen_img.gen_c07_boundaries]

    def oracle(self, op, impl, model, spec):
        if op.startswith("hdr ") and impl.startswith("ok "):
            std = spec_field(spec, "stdcsum")
            m = re.search(r" csum=(\d+)", impl)
            if std is not None and m and m.group(1) != std:
                return "computed checksum %s differs from the standard PE checksum %s of the buffer" % (m.group(1), std)
        return None

    def nontrivial(self, op, impl):
        return impl.startswith("ok ")


class C05(Prop):
    pid = "C05"
    title = "VA / RVA / typed reads"
    thm_modules = ["PeliteModel.Thm.C05"]
    gens = [gen_img.gen_c05]

    def nontrivial(self, op, impl):
        return impl.startswith("ok ")


class C06(Prop):
    pid = "C06"
    title = "file <-> view conversion"
    thm_modules = ["PeliteModel.Thm.C06", "PeliteModel.Thm.C06RoundTrip"]
    gens = [gen_img.gen_c06]

    def nontrivial(self, op, impl):
        return impl.startswith("ok ")


REGISTRY = {p.pid: p for p in [C04(), C05(), C06(), C07(), C14(), C20()]}


def _load_plugins():
    """vlib/props_<m>.py modules define PROPS = [Prop instances]; later definitions override earlier ones"""
    import glob, importlib, os
    here = os.path.dirname(os.path.abspath(__file__))
    for fn in sorted(glob.glob(os.path.join(here, "props_*.py"))):
        mod = importlib.import_module("vlib." + os.path.basename(fn)[:-3])
        for p in getattr(mod, "PROPS", []):
            REGISTRY[p.pid] = p


_load_plugins()
