"""Property registry: theorem modules, generators, projections and verdict rules per property."""
import re
from . import gen_pure, gen_img


def split_model(line):
    """model line = '<answer> ## <spec part>'"""
    if line is None:
        return None, ""
    if " ## " in line:
        a, s = line.split(" ## ", 1)
        return a, s
    return line, ""


def klass(ans):
    """outcome class of an answer line"""
    if ans is None:
        return "none"
    w = ans.split(" ", 1)[0]
    if w in ("ok", "err", "panic", "timeout", "crash", "diverge", "ub", "bad-op"):
        return w
    return "other"


def spec_field(spec, key):
    m = re.search(r"(?:^| )%s=(\S*)" % re.escape(key), spec)
    return m.group(1) if m else None


ITER_FLAGS = ("deque_same", "fused", "imglen_same", "layout_same", "twin_same", "want_n_same")
_EMBEDDED_ERR = re.compile(r"!(Null|Bounds|ZeroFill|Unmapped|Misaligned|BadMagic|PeMagic|Insanity|Invalid|Overflow|Encoding|Aliasing)\b")

# which property's statement governs an operation family (error kinds named there must match exactly)
FAMILY_OWNER = {"r2f": "C04", "f2r": "C04", "slice": "C04", "secbytes": "C04", "slice_bytes": "C04", "read_bytes": "C05", "hdrw2": "C07", "read": "C05", "r2v": "C05", "v2r": "C05",
                "to_view": "C06", "to_file": "C06", "img_to_view": "C06", "img_to_file": "C06", "walk": "C19", "walktext": "C19", "iter": "C18", "from_bytes": "C07", "hdr": "C07", "hdrw": "C07", "byrva": "C07", "byname": "C07", "secname": "C07",
                "exports": "C08", "export": "C08", "imports": "C09", "iat": "C09", "scan": "C10", "scan_code": "C10", "finds": "C10",
                "finds_code": "C10", "pat_exec": "C10", "pat_sem": "C11", "pat_ref": "C11", "pat_parse": "C17", "pat_macro": "C17",
                "ver": "C13", "verat": "C13", "debug": "C15", "tls": "C15", "loadcfg": "C15", "exc": "C15", "security": "C15",
                "pogo_hist": "C15", "strings": "C20", "strings_hist": "C20"}
FAMILY_PREFIX = [("derva", "C05"), ("deref", "C05"), ("rich", "C16"), ("relocs", "C14"), ("res", "C12"), ("json", "C19")]


class Prop:
    """Base: exact comparison of implementation and model answers for the listed families."""
    pid = None
    title = ""
    thm_modules = []          # lake targets holding the property's theorems
    gens = []                 # generator functions (rng, tier) -> cases
    determined = True         # the compared projection is a function of the input under the hypotheses
    technique = "Lean 4 theorem over an executable model + differential correspondence with the Rust code"

    def project(self, op, ans):
        """what of an answer this property constrains (default: everything; panic / crash / hang
        are compared by class, the message and site are diagnostics only)"""
        k = klass(ans)
        if op.split(" ", 1)[0] in ("json", "walk", "iter"):
            # whole-API operations: the model only knows the outcome class (their detailed oracles
            # live in the cross-cutting properties, C18 and C19)
            if ans.startswith("noimg"):
                return "noimg"
            if op.startswith("iter ") and k in ("ok", "err", "other"):
                # the model only knows whether the view exists; an absent / unreadable directory
                # (`err Null`, `none`) is an answer like any other, judged by the in-harness deque
                return "answered"
            return k
        if k == "panic":
            return "panic"
        if k in ("crash", "ub"):
            return "crash"
        if k in ("timeout", "diverge"):
            return "diverge"
        if k == "ok" and op.startswith("ptr ") and " text=" in ans:
            # the Display text of a typed address is held to "it denotes the address" (hexadecimal, any case,
            # with or without `0x`, any padding), never to its wording
            head, t = ans.split(" text=", 1)
            try:
                txt = bytes.fromhex(t.strip()).decode("ascii").strip().lower()
                val = int(txt[2:] if txt.startswith("0x") else txt, 16)
            except Exception:
                val = "?"
            return "%s textval=%s" % (head, val)
        if k == "ok" and "!" in ans:
            # error kinds embedded in a dump (`F!Overflow`, `uw=!Bounds`, `!Null`): the same rule as for a
            # top-level error — a kind the owning statement does not name is compared by class only
            named = self.named_for(op) if hasattr(self, "named_for") else None
            if named is not None:
                ans = _EMBEDDED_ERR.sub(lambda m: m.group(0) if m.group(1) in named else "!E", ans)
        return ans

    def judge(self, op, impl, model, spec):
        """-> None (fine) | dict(kind=..., text=...) ; kind in
        'spec'  : implementation contradicts the executable specification on an in-hypothesis input
        'model' : implementation and model disagree (correspondence broken)"""
        hyp = spec_field(spec, "hyp")
        if op.startswith("iter ") and klass(impl) == "ok":
            # iterator histories are answered by the harness alone (the iterator beside a deque of its items, the
            # wrapper beside the iterator it wraps, …): a flag that is 0 is a failed comparison, whoever runs the stream
            bad = [fl for fl in ITER_FLAGS if (" %s=0" % fl) in impl]
            if bad:
                return {"kind": "spec", "text": "iterator history: %s failed: %s" % (", ".join(bad), impl[:300])}
        r = self.oracle(op, impl, model, spec)
        if r:
            return {"kind": "spec", "text": r}
        if not self.agree(op, impl, model):
            return {"kind": "model", "text": "impl=%s model=%s" % (impl[:300], model[:300]), "hyp": hyp}
        return None

    # Error kinds the property's statement names (None = every kind matters).  Where the model answers
    # with a kind the statement does NOT name, the statement only says that the operation fails, so
    # any error from the implementation agrees (a change of an unspecified error kind is not a
    # violation); a named kind, a value, and success-vs-failure are always compared exactly.
    named_errors = None

    def named_for(self, op):
        """the error kinds that must match exactly for this operation: the set of the property that OWNS the
        operation family (a property that pulls in other modules' streams — C18, C19 — judges their error kinds
        by the owner's statement, not more strictly)"""
        fam = op.split(" ", 1)[0]
        owner = FAMILY_OWNER.get(fam)
        if owner is None:
            for pre, pid in FAMILY_PREFIX:
                if fam.startswith(pre):
                    owner = pid
                    break
        p = REGISTRY.get(owner) if owner else None
        if p is not None and p is not self and getattr(self, "pulls_others", False):
            return p.own_named(op)
        return self.own_named(op)

    def own_named(self, op):
        """the kinds this property's statement names for the operation (default: the same for all of them)"""
        return self.named_errors

    def agree(self, op, impl, model):
        pi, pm = self.project(op, impl), self.project(op, model)
        if pi == pm:
            return True
        named = self.named_for(op)
        if named is None and pi.startswith("noimg ") and pm.startswith("noimg "):
            named = set()
        if named is not None:
            for pre in ("err ", "noimg "):
                # (`noimg <Kind>`: the constructor rejected the buffer — which of several applicable checks
                # fires first is as unspecified as any other unnamed error kind)
                if pi.startswith(pre) and pm.startswith(pre):
                    ki = pi.split(" ")[1] if " " in pi else ""
                    km = pm.split(" ")[1] if " " in pm else ""
                    if pre == "noimg ":
                        # the constructor rejected the buffer: the kinds C07's statement names, whatever the operation
                        c07 = REGISTRY.get("C07")
                        named = c07.named_errors if c07 is not None and c07.named_errors is not None else named
                    # a kind the statement names must match exactly, whichever side reports it
                    if km not in named and ki not in named:
                        return True
        return False

    def oracle(self, op, impl, model, spec):
        return None

    def nontrivial(self, op, impl):
        return impl not in ("ok", "ok []") and not impl.startswith("err")


class C20(Prop):
    pid = "C20"
    title = "string enumerator"
    thm_modules = ["PeliteModel.Thm.C20"]
    gens = [gen_pure.gen_strings, gen_pure.gen_strings_hist]

    def oracle(self, op, impl, model, spec):
        if spec_field(spec, "hyp") != "1":
            return None
        s = spec_field(spec, "spec")
        if op.startswith("strings_hist"):
            # the history on the real enumerator against the same calls on the list of the qualifying runs
            m = re.match(r"ok (\S*) fused=(\d)$", impl)
            if not m:
                return "history did not answer: %s" % impl[:200]
            if m.group(1) != s:
                return "enumerator history %s differs from the sequence of the qualifying runs %s" % (m.group(1)[:300], (s or "")[:300])
            if m.group(2) != "1":
                return "iterator not fused"
            return None
        m = re.match(r"ok (\[\S*\]) fused=(\d)", impl)
        if not m:
            return "enumerator did not return a list: %s" % impl[:200]
        if m.group(1) != s:
            return "reported runs %s differ from the qualifying maximal runs %s" % (m.group(1)[:300], s[:300])
        if m.group(2) != "1":
            return "iterator not fused at the end"
        return None

    def nontrivial(self, op, impl):
        return not impl.startswith("ok [] ")


class C14(Prop):
    named_errors = set()     # the statement names no error kind: errors agree by class
    pid = "C14"
    title = "base relocations"
    thm_modules = ["PeliteModel.Thm.C14", "PeliteModel.Thm.ImageLayout", "PeliteModel.Thm.C14Layout"]   # extraction (`Pe::base_relocs`): restated here as C14_extraction (C19_base_relocs_ref is its corollary)
    gens = [gen_pure.gen_relocs_raw, gen_pure.gen_relocs_rawat, gen_pure.gen_relocs_hist, gen_pure.gen_relocs_build, gen_pure.gen_relocs_image]

    # ---- extraction (`relocs <k> dump` on an image): judged against the bytes of the `img` line, read here by the PE
    # format (data directory 5 = (VirtualAddress, Size); a directory = blocks of `Block Size` bytes), independently of
    # the model: the window handed out is `Size` bytes, dword aligned in memory, at the directory's RVA in a mapped
    # image, and on well-formed directory bytes the blocks / entries reported are the format's (C14_extraction,
    # C14_blocks_partition_dir, C14_flat_eq_spec_dir)
    @staticmethod
    def _decode_dir(d):
        """-> (well formed?, [(page rva, offset, block size)], [(rva, type)]) of a directory by the PE format"""
        off, blocks, flat = 0, [], []
        while len(d) - off >= 8:
            va, size = int.from_bytes(d[off:off + 4], "little"), int.from_bytes(d[off + 4:off + 8], "little")
            if size < 8 or size % 4 or off + size > len(d):
                return False, blocks, flat
            for i in range((size - 8) // 2):
                w = int.from_bytes(d[off + 8 + 2 * i:off + 10 + 2 * i], "little")
                if w >> 12:
                    flat.append(((va + (w & 0xFFF)) & 0xFFFFFFFF, w >> 12))
            blocks.append((va, off, size))
            off += size
        return True, blocks, flat

    def _set_img(self, line):
        self.img, self.al, self.lay = None, 0, None
        w = line.split(" ")
        if len(w) >= 4 and w[0] == "img":
            try:
                self.al = int(w[1], 0)
                self.img = bytes.fromhex(w[3]) if w[3] != "-" else b""
                self.lay = C06._layout(self.img)
            except ValueError:
                self.img, self.lay = None, None

    def begin_case(self, case):
        self._set_img(case[0] if case else "")

    def _extraction(self, k, impl):
        lay, img = self.lay, self.img
        if lay is None or klass(impl) not in ("ok", "err"):
            return None
        dd = lay["nt_end"] + 8 * 5
        if lay["ndirs"] <= 5:
            return None if klass(impl) == "err" else "no data-directory slot 5, yet a relocation directory was extracted: %s" % impl[:200]
        if dd + 8 > len(img):
            return None
        va, size = int.from_bytes(img[dd:dd + 4], "little"), int.from_bytes(img[dd + 4:dd + 8], "little")
        if va == 0:
            return None if klass(impl) == "err" else "relocation directory at RVA 0 (absent), yet extracted: %s" % impl[:200]
        mapped = k in ("v32", "v64", "wv")
        if mapped:
            want_ok = (self.al + va) % 4 == 0 and va + size <= len(img)
            if want_ok != impl.startswith("ok "):
                return "mapped image, relocation directory (rva %d, size %d): extraction should %s, answered %s" % (va, size, "succeed" if want_ok else "fail", impl[:200])
        if not impl.startswith("ok "):
            return None
        m = re.match(r"ok image=(\d+):(\d+) blocks=\[(\S*)\] flat=\[(\S*)\]$", impl)
        if not m:
            return "extraction answer not understood: %s" % impl[:200]
        off, ln = int(m.group(1)), int(m.group(2))
        if ln != size:
            return "the extracted directory has %d bytes, the data directory says Size = %d" % (ln, size)
        if (self.al + off) % 4:
            return "the extracted directory is not dword aligned in memory (offset %d, buffer at %d mod 16)" % (off, self.al)
        if off + ln > len(img):
            return "the extracted directory [%d, %d) leaves the buffer (%d bytes)" % (off, off + ln, len(img))
        if mapped and off != va:
            return "mapped image: the directory at RVA %d was extracted from offset %d" % (va, off)
        wf, blocks, flat = self._decode_dir(img[off:off + ln])
        if wf:
            want_b = ",".join("%d@%d:8+%d/%d:%d" % (bva, off + bo, bs, off + bo + 8, bs - 8) for bva, bo, bs in blocks)
            want_f = ",".join("%d:%d" % p for p in flat)
            if m.group(3) != want_b:
                return "well-formed directory: blocks reported %s, the format lays out %s" % (m.group(3)[:300], want_b[:300])
            if m.group(4) != want_f:
                return "well-formed directory: entries reported %s differ from the PE-format decoding %s" % (m.group(4)[:300], want_f[:300])
        return None

    def oracle(self, op, impl, model, spec):
        if op.startswith("img "):
            self._set_img(op)
            return None
        mx = re.match(r"relocs (\S+) dump$", op)
        if mx:
            return self._extraction(mx.group(1), impl)
        if op.startswith("relocs_raw"):          # relocs_raw and relocs_rawat
            if "foreach_same=0" in impl or "fold_same=0" in impl:
                return "block iterator and for_each/fold disagree: %s" % impl[:300]
            w = op.split(" ")
            if w[0] == "relocs_rawat":
                # "all 4-byte-aligned byte strings as directories": parse accepts iff the address is a multiple of 4
                aligned = int(w[1], 0) % 4 == 0
                if aligned and not impl.startswith("ok "):
                    return "a 4-aligned directory was not accepted: %s" % impl[:200]
                if not aligned and impl != "err Misaligned":
                    return "a misaligned directory was not rejected with Misaligned: %s" % impl[:200]
            if spec_field(spec, "hyp") == "1" and impl.startswith("ok "):
                # well-formed data: the reported entries are what the format-side decoder reads
                m = re.search(r"flat=(\[\S*\])", impl)
                want = spec_field(spec, "spec")
                if not m or m.group(1) != want:
                    return "entries reported %s differ from the PE-format decoding %s" % (m.group(1)[:300] if m else impl[:200], (want or "")[:300])
        if op.startswith("relocs_hist") and impl.startswith("ok "):
            # the history on the real iterator against the same calls on the plain list of blocks
            want = spec_field(spec, "spec")
            m = re.match(r"ok (\S*) fused=(\d)$", impl)
            if not m:
                return "history did not answer: %s" % impl[:200]
            if want is not None and m.group(1) != want:
                return "iterator history %s differs from the sequence of its blocks %s" % (m.group(1)[:300], want[:300])
            if m.group(2) != "1":
                return "block iterator not fused"
        if op.startswith("relocs_build") and spec_field(spec, "hyp") == "1":
            m = re.search(r"flat=(\[\S*\])", impl)
            want = spec_field(spec, "input")
            if not m or m.group(1) != want:
                return "parsing the built directory gives %s, not the input pairs %s" % (m.group(1)[:300] if m else impl[:200], want[:300])
        return None

    def nontrivial(self, op, impl):
        return impl.startswith("ok") and "blocks=[]" not in impl and impl != "ok -"


class C04(Prop):
    named_errors = {"ZeroFill", "Bounds"}       # "report zero-fill", "report out-of-bounds"
    pid = "C04"
    title = "file views resolve RVAs through the section table"
    thm_modules = ["PeliteModel.Thm.C04", "PeliteModel.Thm.C04Dead", "PeliteModel.Thm.C04View"]
    gens = [gen_img.gen_c04, gen_img.gen_c04_firstmatch, gen_img.gen_c04_manysec]

    def nontrivial(self, op, impl):
        return impl.startswith("ok ")


class C07(Prop):
    named_errors = {"PeMagic"}                  # "rejected with the dedicated wrong-format error"
    pid = "C07"
    title = "headers"
    thm_modules = ["PeliteModel.Thm.C07", "PeliteModel.Thm.C07Checksum", "PeliteModel.Thm.C07Layout", "PeliteModel.Thm.C07Name", "PeliteModel.Thm.ImageLayout"]
    gens = [gen_img.gen_c07_corpus, gen_img.gen_c07, gen_img.gen_c07_boundaries]

    def oracle(self, op, impl, model, spec):
        if op.startswith(("hdr ", "hdrw2 ")) and impl.startswith("ok "):
            std = spec_field(spec, "stdcsum")
            m = re.search(r" csum=(\d+)", impl)
            if std is not None and m and m.group(1) != std:
                return "computed checksum %s differs from the standard PE checksum %s of the buffer" % (m.group(1), std)
        return None

    def nontrivial(self, op, impl):
        return impl.startswith("ok ")


class C05(Prop):
    named_errors = {"Null"}                     # "a zero address always yields the null error"; read vs slice: see oracle
    pid = "C05"
    title = "VA / RVA / typed reads"
    thm_modules = ["PeliteModel.Thm.C05", "PeliteModel.Thm.C05Complete", "PeliteModel.Thm.C05SliceF", "PeliteModel.Thm.C05Ptr"]
    gens = [gen_img.gen_c05, gen_img.gen_partial_slot, gen_pure.gen_ptr, gen_img.module_twin_cases(gen_img.gen_c05)]

    def begin_case(self, case):
        self.last_slice = None
        if not hasattr(self, "judged"):
            self.judged = {"slice_read_pairs_seen": 0, "slice_read_pairs_judged": 0, "slice_bytes_read_bytes_pairs_judged": 0,
                           "pairs_judged_ok": 0, "pairs_judged_err": 0}

    def stats(self):
        return dict(getattr(self, "judged", {}))

    def oracle(self, op, impl, model, spec):
        # "reading at virtual address B+r returns exactly what slicing at RVA r returns (same bytes,
        # same error class)": the generator issues `slice k r n a` immediately followed by
        # `read k B+r n a` (and `slice_bytes k r` by `read_bytes k B+r`, the (0, 1) shorthands); both
        # answers come from the implementation
        w = op.split(" ")
        if w[0] == "slice" and len(w) == 5:
            self.last_slice = ("read", w[1], w[3], w[4], impl, model)
        elif w[0] == "slice_bytes" and len(w) == 3:
            self.last_slice = ("read_bytes", w[1], "0", "1", impl, model)
        elif w[0] in ("read", "read_bytes") and self.last_slice and self.last_slice[:4] == (w[0], w[1]) + (tuple(w[3:5]) if w[0] == "read" else ("0", "1")):
            twin, k, n, a, s_impl, s_model = self.last_slice
            self.last_slice = None
            self.judged["slice_read_pairs_seen"] += 1
            # only where the model says the two paths denote the same request (r in (0, SizeOfImage))
            if s_model == model and klass(model) in ("ok", "err"):
                self.judged["slice_read_pairs_judged" if twin == "read" else "slice_bytes_read_bytes_pairs_judged"] += 1
                self.judged["pairs_judged_" + klass(model)] += 1
                if self.project(op, s_impl) != self.project(op, impl):
                    return "%s at B+r answered %s but %s at r answered %s" % (w[0], impl[:150], "slice" if twin == "read" else "slice_bytes", s_impl[:150])
        else:
            self.last_slice = None
        return None

    def nontrivial(self, op, impl):
        return impl.startswith("ok ")


class C06(Prop):
    named_errors = set()
    pid = "C06"
    title = "file <-> view conversion"
    thm_modules = ["PeliteModel.Thm.C06", "PeliteModel.Thm.C06RoundTrip", "PeliteModel.Thm.C06Slice", "PeliteModel.Thm.C06Typed"]
    gens = [gen_img.gen_c06, gen_img.gen_c06_dirs]

    # "every RVA whose bytes are stored in the file and mapped reads identically through a file view and
    # through a view over the converted buffer": gen_c06 issues the same typed reads on the file (phase 0),
    # after `img_to_view` on the view over the converted buffer (phase 1) and after `img_to_file` on the
    # file converted back (phase 2).  The oracle remembers the phase-0 answers of the implementation and
    # compares the VALUES (copied integers / bytes, string and array lengths) of the later phases with
    # them — not the `off:len` references, which legitimately differ (file offset vs rva).  It only
    # judges requests that lie in stored-and-mapped bytes of the first containing section of a
    # `LoadableFile` image (the hypotheses of C06_same_slice / C06_cstr_same / C06_sentinel_same /
    # C06_round_trip), computed here from the bytes of the `img` line, independently of the model.
    TYPE_SIZE = {"u8": 1, "u16": 2, "u32": 4, "u64": 8}

    @staticmethod
    def _layout(data):
        """header fields and section table of a file the way the PE format lays them out; None if the
        structures do not fit the buffer"""
        def u16(o): return int.from_bytes(data[o:o + 2], "little")
        def u32(o): return int.from_bytes(data[o:o + 4], "little")
        if len(data) < 64:
            return None
        e = u32(60)
        if e + 24 + 2 > len(data):
            return None
        magic = u16(e + 24)
        if magic not in (0x10b, 0x20b):
            return None
        nt_size = 120 if magic == 0x10b else 136
        if e + nt_size > len(data):
            return None
        opt = e + 24
        nsec, soh_opt = u16(e + 6), u16(e + 20)
        lay = {"soi": u32(opt + 56), "soh": u32(opt + 60), "len": len(data), "nt_end": e + nt_size}
        if magic == 0x10b:
            lay["image_base"], lay["ndirs"] = u32(opt + 28), min(u32(opt + 92), 16)
        else:
            lay["image_base"], lay["ndirs"] = u32(opt + 24) | (u32(opt + 28) << 32), min(u32(opt + 108), 16)
        dd = e + nt_size
        lay["dirs"] = [(u32(dd + 8 * i), u32(dd + 8 * i + 4)) for i in range(lay["ndirs"]) if dd + 8 * i + 8 <= len(data)]
        tab = opt + soh_opt
        lay["sec_end"] = tab + 40 * nsec
        if lay["sec_end"] > len(data):
            return None
        lay["secs"] = [dict(vs=u32(o + 8), va=u32(o + 12), rs=u32(o + 16), prd=u32(o + 20))
                       for o in (tab + 40 * i for i in range(nsec))]
        return lay

    @staticmethod
    def _loadable_file(lay):
        """`LoadableFile` of Spec/Convert.lean"""
        U = 1 << 32
        secs = lay["secs"]
        for s in secs:
            # (a section without raw data — `.bss`, PointerToRawData usually 0 — stores nothing: its pointer is free)
            if not (s["va"] + s["vs"] < U and s["prd"] + s["rs"] < U and s["va"] + s["vs"] <= lay["soi"]
                    and s["prd"] + s["rs"] <= lay["len"] and lay["soh"] <= s["va"] and (s["rs"] == 0 or lay["soh"] <= s["prd"])):
                return False
        for i, a in enumerate(secs):
            for b in secs[i + 1:]:
                if not (a["va"] + a["vs"] <= b["va"] or b["va"] + b["vs"] <= a["va"]):
                    return False
                if not (a["prd"] + a["rs"] <= b["prd"] or b["prd"] + b["rs"] <= a["prd"]):
                    return False
        return lay["sec_end"] <= lay["soh"] and lay["nt_end"] + 8 * lay["ndirs"] <= lay["soh"] <= lay["soi"]

    def _stored_and_mapped(self, rva, n):
        """the request [rva, rva+n) lies in the stored-and-mapped bytes of the first section containing rva"""
        if not (0 < rva < (1 << 32)):
            return False
        for s in self.lay["secs"]:
            if s["va"] <= rva < ((s["va"] + max(s["vs"], s["rs"])) & 0xFFFFFFFF):      # `firstV`
                return rva - s["va"] + n <= min(s["vs"], s["rs"])
        return False

    # "every directory query (exports, imports, relocations, resources, TLS, debug, exceptions, load config, Rich
    # header) gives equal results on both": gen_c06_dirs issues the directory dumps on the file (phase 0) and on
    # the view over the converted buffer (phase 1).  The two answers must be the same text except for the
    # `off:len` references, and a reference may only differ by being RELOCATED: the file's `off:len` lies in
    # stored-and-mapped bytes at rva r (or in the headers) and the view's reference is exactly `r:len` (the
    # bytes there are the same by the typed-read clause / C06_same_slice).  Names, ordinals, thunk values,
    # record contents, counts and byte digests are ordinary text and must be equal.  Judged when the image is
    # `LoadableFile`, the file's answer contains no failure other than `Null` (a range that is not stored reads
    # as zeros through the view: ZeroFill / Bounds / a missing terminator may legitimately turn into a value),
    # and no number pair of the file's answer, read as a reference, touches stored-but-not-mapped bytes.
    DIR_FAMS = ("exports", "imports", "iat", "relocs", "res", "grp_write", "tls", "debug", "exc", "loadcfg", "rich")
    CHAIN = re.compile(r"\d+(?::\d+)+")
    FAIL = re.compile(r"(?:!|err:|err |Err:)([A-Za-z0-9]+)|data=none|\(none\)")
    STABLE = ("Null", "NotFound", "Bad8Path", "NoRootPath", "UnDataEntry", "UnDirectory")
    # index of the data directory a family reads ("the directory lies in stored-and-mapped bytes"; the Rich header
    # lies in the headers, which keep their offsets)
    DIR_INDEX = {"exports": 0, "imports": 1, "res": 2, "grp_write": 2, "exc": 3, "relocs": 5, "debug": 6, "tls": 9, "loadcfg": 10, "iat": 12}
    # bytes read behind a printed reference without being part of it: string terminators, the zero thunk / zero
    # callback / zero import descriptor (20 bytes) that ends an array.  The sized directories (relocation blocks,
    # resource tables inside the directory extent, the Rich area) have none.
    SLACK = {"relocs": 0, "res": 0, "grp_write": 0, "rich": 0}
    SLACK_DEFAULT = 32

    def stats(self):
        return dict(getattr(self, "judged", {}))

    def _count(self, key, n=1):
        self.judged[key] = self.judged.get(key, 0) + n

    def _file_to_rvas(self, off, ln):
        """the rvas at which the converted view shows the stored-and-mapped file bytes [off, off+ln); the
        headers keep their offsets"""
        lay, out = self.lay, set()
        if off + ln <= lay["soh"]:
            out.add(off)
        for s in lay["secs"]:
            if s["rs"] and s["prd"] <= off and off + ln <= s["prd"] + min(s["vs"], s["rs"]):
                rva = off - s["prd"] + s["va"]
                if ln == 0 or self._stored_and_mapped(rva, ln):
                    out.add(rva)
        return out

    def _touches_unmapped(self, off, ln, slack):
        """[off, off+ln) plus the slack for terminators reaches stored bytes that are not mapped (rs > vs)"""
        for s in self.lay["secs"]:
            if s["rs"] > s["vs"] and off < s["prd"] + s["rs"] and off + ln + slack > s["prd"] + s["vs"]:
                return True
        return False

    def _ref_chains(self, fam, a0):
        """the `a:b(:c…)` number chains of a file answer that may hold references (a chain of pure values that is
        taken for a reference only makes the oracle skip the operation)"""
        if fam == "relocs":
            a0 = a0.split(" flat=", 1)[0]              # flat=[rva:type,…] are values
        elif fam == "rich":
            m = re.search(r" img=(\d+:\d+)", a0)       # recs=[product:build:count,…] are values
            return [m.group(1)] if m else []
        return self.CHAIN.findall(a0)

    def _dir_judge(self, key, a0, a1):
        """phase-0 answer of the file, phase-1 answer of the view over the converted buffer -> text | None"""
        fam = key[0]
        self._count("dir_ops_paired")
        abnormal = ("panic", "crash", "timeout", "diverge", "ub", "bad-op", "none")      # (C01-C03 judge those)
        if klass(a0) in abnormal or klass(a1) in abnormal or a0.startswith("noimg"):
            self._count("dir_skipped_abnormal")
            return None
        if not self.view_ok:
            self._count("dir_skipped_view_rejected")
            return None
        for m in self.FAIL.finditer(a0):
            # (`Null` = a zero pointer / absent directory, the `FindError` kinds = facts about the resource tree:
            # values like any other; `Err:<n>` in a Rich dump is the encoder's size answer, not a failure)
            if m.group(1) not in self.STABLE and not (fam == "rich" and m.group(0).startswith("Err:")):
                self._count("dir_skipped_file_failure")
                return None
        if fam == "debug":
            # a debug entry names its raw data twice: PointerToRawData (used by file views) and AddressOfRawData
            # (used by mapped views; 0 = not mapped).  The two views read the same bytes only when the entry is
            # consistent: the file pointer is stored and mapped at exactly that rva
            for m in re.finditer(r" sz=(\d+) aord=(\d+) ptr=(\d+) ", a0):
                sz, aord, ptr = int(m.group(1)), int(m.group(2)), int(m.group(3))
                if aord not in self._file_to_rvas(ptr, sz):
                    self._count("dir_skipped_debug_entry_inconsistent")
                    return None
        idx = self.DIR_INDEX.get(fam)
        if idx is not None and idx < len(self.lay["dirs"]):
            rva, size = self.lay["dirs"][idx]
            if rva != 0 and not self._stored_and_mapped(rva, size):
                self._count("dir_skipped_extent_not_stored_and_mapped")
                return None
        if fam in ("res", "grp_write") and not (fam == "res" and key[1:2] == ("dump",)) and not self.res_dump_clean:
            # lookups / reassembly read data entries that their answer does not print as references: judged when
            # the full dump of the same tree (every data entry as `off:len#digest`) met the preconditions
            self._count("dir_skipped_res_dump_not_judged")
            return None
        slack = self.SLACK.get(fam, self.SLACK_DEFAULT)
        for ch in self._ref_chains(fam, a0):
            n = [int(x) for x in ch.split(":")]
            # (`value:value:off:len` records — POGO items, icon entries — pair up from the left)
            if any(self._touches_unmapped(n[i], n[i + 1], slack) for i in range(0, len(n) - 1, 2 if len(n) % 2 == 0 else 1)):
                self._count("dir_skipped_unmapped_tail")
                return None
        c0, c1 = self.CHAIN.findall(a0), self.CHAIN.findall(a1)
        if fam == "res" and key[1:2] == ("dump",):
            self.res_dump_clean = True
        self._count("dir_ops_judged")
        self._count("dir_judged_" + fam)
        if a0.startswith("ok ") and len(a0) > 8:
            self._count("dir_judged_nonempty")
        where = "the file answers %s, the view over the converted buffer answers %s" % (a0[:160], a1[:160])
        if self.CHAIN.split(a0) != self.CHAIN.split(a1) or len(c0) != len(c1):
            return "directory query %s: values differ: %s" % (fam, where)
        for x0, x1 in zip(c0, c1):
            if x0 == x1:
                continue
            n0, n1 = [int(x) for x in x0.split(":")], [int(x) for x in x1.split(":")]
            if len(n0) != len(n1):
                return "directory query %s: values differ (%s / %s): %s" % (fam, x0, x1, where)
            i = 0
            while i < len(n0):
                if n0[i] == n1[i]:
                    i += 1
                    continue
                # a differing number must be the offset of a reference whose length follows and is equal
                if i + 1 >= len(n0) or n0[i + 1] != n1[i + 1]:
                    return "directory query %s: values differ (%s / %s): %s" % (fam, x0, x1, where)
                want = self._file_to_rvas(n0[i], n0[i + 1])
                if not want:
                    # not a reference into stored-and-mapped bytes or the headers (unmapped tails were excluded
                    # above): two different values
                    return "directory query %s: values differ (%s / %s): %s" % (fam, x0, x1, where)
                elif n1[i] not in want:
                    return "directory query %s: the file's reference %d:%d is stored and mapped at rva %s but the view refers to %d:%d: %s" % (
                        fam, n0[i], n0[i + 1], "/".join("0x%x" % r for r in sorted(want)), n1[i], n1[i + 1], where)
                else:
                    self._count("dir_refs_relocated")
                i += 2
        return None

    def begin_case(self, case):
        if not hasattr(self, "judged"):
            self.judged = {"typed_reads_paired": 0, "typed_reads_judged": 0, "dir_ops_paired": 0, "dir_ops_judged": 0}
        self.phase = 0            # 0 = the file, 1 = view over to_view(file), 2 = file from to_file(view); None = not comparable
        self.first = {}           # phase-0 answers of the implementation by request
        self.dir_first = {}       # phase-0 answers of the directory queries by (family, arguments)
        self.res_dump_clean = False
        self.lay = None
        self.view_ok = False
        if case and case[0].startswith("img "):
            w = case[0].split(" ")
            try:
                lay = self._layout(bytes.fromhex(w[3]) if len(w) > 3 and w[3] != "-" else b"")
            except ValueError:
                lay = None
            if lay and self._loadable_file(lay):
                self.lay = lay

    def _request(self, w):
        """(key, rva, size of one element or of the copy, family) of a typed read line, else None"""
        fam = w[0]
        try:
            if fam in ("derva_copy", "deref_copy") and len(w) == 4:
                x, n = int(w[3], 0), self.TYPE_SIZE[w[2]]
            elif fam in ("derva_into", "deref_into") and len(w) == 4:
                x, n = int(w[3], 0), int(w[2], 0)
            elif fam in ("derva_cstr", "deref_cstr") and len(w) == 3:
                x, n = int(w[2], 0), 1
            elif fam in ("derva_slice_s", "deref_slice_s", "derva_slice_f", "deref_slice_f") and len(w) == 5:
                # (`_slice_f`: predicate-terminated; like a sentinel array the object is the returned elements plus
                # the element the callable stopped on)
                x, n = int(w[3], 0), self.TYPE_SIZE[w[2]]
            else:
                return None
        except (ValueError, KeyError):
            return None
        rva = x - self.lay["image_base"] if fam.startswith("deref") else x
        return (fam,) + tuple(w[2:]), rva, n, fam[6:]

    def oracle(self, op, impl, model, spec):
        w = op.split(" ")
        if w[0] == "img":
            self.phase = None
            return None
        if w[0] == "img_to_view":
            self.phase = 1 if (self.phase == 0 and impl.startswith("ok ")) else None
            return None
        if w[0] == "img_to_file":
            self.phase = 2 if (self.phase == 1 and impl.startswith("ok ")) else None
            return None
        if self.lay is None or self.phase is None:
            if w[0] in self.DIR_FAMS and self.phase == 1:
                self._count("dir_skipped_not_loadable_file")
            return None
        if w[0] == "from_bytes" and self.phase == 1:
            self.view_ok = impl.startswith("ok")
            if not self.view_ok:
                # C06_to_view_accepted: the converted buffer of a LoadableFile image is accepted (it is placed 16-aligned)
                return "the buffer produced by to_view from a loadable file is rejected by PeView::from_bytes: %s" % impl[:100]
            return None
        if w[0] == "secbytes" and len(w) == 3 and self.phase == 1 and self.view_ok and w[1] in ("v32", "v64", "wv"):
            # "each section's stored bytes appear at their virtual addresses … the virtual-only tail … is zero": through
            # the view over the converted buffer a section header describes exactly [VirtualAddress, +VirtualSize),
            # also when the section has no raw data at all (bss: PointerToRawData = 0 is not a null section there)
            try:
                sec = self.lay["secs"][int(w[2], 0)]
            except (ValueError, IndexError):
                return None
            self._count("secbytes_on_view_judged")
            self._count("secbytes_on_view_bss", sec["rs"] == 0 and sec["prd"] == 0 and sec["vs"] > 0)
            want = "ok %d:%d" % (sec["va"], sec["vs"])
            if impl != want:
                return "section %s (va 0x%x, VirtualSize 0x%x, PointerToRawData 0x%x, SizeOfRawData 0x%x) through the view over the converted buffer: %s, expected %s" % (
                    w[2], sec["va"], sec["vs"], sec["prd"], sec["rs"], impl[:100], want)
            return None
        if w[0] in self.DIR_FAMS and len(w) >= 2:
            key = (w[0],) + tuple(w[2:])
            if self.phase == 0:
                self.dir_first[key] = impl
            elif self.phase == 1 and key in self.dir_first:
                return self._dir_judge(key, self.dir_first[key], impl)
            return None
        rq = self._request(w)
        if rq is None:
            return None
        key, rva, n, kind = rq
        if self.phase == 0:
            self.first[key] = impl
            return None
        a0 = self.first.get(key)
        self._count("typed_reads_paired")
        if a0 is None or not a0.startswith("ok "):
            return None
        where = "the view over the converted buffer" if self.phase == 1 else "the file converted back"
        if kind in ("copy", "into"):
            if not self._stored_and_mapped(rva, n):
                return None
            self._count("typed_reads_judged")
            self._count("typed_judged_" + kind)
            if impl.startswith("ok "):
                if impl != a0:
                    return "stored-and-mapped bytes at rva 0x%x read as %s through the file but as %s through %s" % (rva, a0[:80], impl[:80], where)
            elif self.phase == 1 and self.view_ok and klass(impl) == "err":
                return "stored-and-mapped bytes at rva 0x%x read as %s through the file but %s answers %s" % (rva, a0[:80], where, impl[:80])
            return None
        # strings and sentinel-terminated arrays: `ok off:len`; the whole object plus its terminator must be stored and mapped
        m0 = re.match(r"ok (\d+):(\d+)", a0)
        if not m0:
            return None
        ln = int(m0.group(2))
        if not self._stored_and_mapped(rva, ln + n):
            return None
        self._count("typed_reads_judged")
        self._count("typed_judged_" + kind)
        m1 = re.match(r"ok (\d+):(\d+)", impl)
        if m1:
            if int(m1.group(2)) != ln:
                return "the %s at rva 0x%x has length %d through the file but %s through %s" % (
                    "C string" if kind == "cstr" else "sentinel-terminated array", rva, ln, m1.group(2), where)
            if self.phase == 1 and int(m1.group(1)) != rva:
                return "the view over the converted buffer answers the read at rva 0x%x with offset %s" % (rva, m1.group(1))
        return None

    def nontrivial(self, op, impl):
        return impl.startswith("ok ")


REGISTRY = {p.pid: p for p in [C04(), C05(), C06(), C07(), C14(), C20()]}


def _load_plugins():
    """vlib/props_<m>.py modules define PROPS = [Prop instances]; later definitions override earlier ones"""
    import glob, importlib, os
    here = os.path.dirname(os.path.abspath(__file__))
    for fn in sorted(glob.glob(os.path.join(here, "props_*.py"))):
        mod = importlib.import_module("vlib." + os.path.basename(fn)[:-3])
        for p in getattr(mod, "PROPS", []):
            REGISTRY[p.pid] = p


_load_plugins()
