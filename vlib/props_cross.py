"""Cross-cutting properties C01 (memory safety), C02 (totality), C03 (termination).
Their correspondence run is a direct oracle on the implementation's outcome class over EVERY
operation family (modelled or not): crash / misaligned or outside reference (C01), panic / abort
(C02), hang / stack exhaustion / absurd item counts (C03)."""
import re
from .props import Prop, klass, spec_field, REGISTRY
from . import gen_walk, gen_pure


def _sample(gen, limit_quick, limit_thorough):
    def g(rng, tier):
        cs = gen(rng, tier)
        lim = limit_quick if tier == "quick" else limit_thorough
        if len(cs) > lim:
            idx = sorted(rng.sample(range(len(cs)), lim))
            cs = [cs[i] for i in idx]
        return cs
    g.__name__ = "sample_" + gen.__name__
    g.__module__ = getattr(gen, "__module__", "")
    return g


class Cross(Prop):
    own_gens = [gen_walk.gen_walk_corpus, gen_walk.gen_walk_corrupt, gen_walk.gen_walk_generated, gen_walk.gen_align_stress, gen_pure.gen_fmt_cstr, gen_walk.gen_shared_dag]

    @property
    def gens(self):
        out = list(self.own_gens)
        key = lambda g: (getattr(g, "__module__", ""), g.__name__)
        seen = set(key(g) for g in out)
        for pid in sorted(REGISTRY):
            p = REGISTRY[pid]
            if isinstance(p, Cross):
                continue
            for g in p.gens:
                if key(g) not in seen:
                    seen.add(key(g))
                    # the pure, cheap streams (strings, relocations) in full: their rare corners (zero
                    # thresholds, 2^16 runs) must not be lost to sampling
                    out.append(g if pid in ("C20", "C14") else _sample(g, 250, 4000))
        return out

    def judge(self, op, impl, model, spec):
        t = self.bad(op, impl)
        return {"kind": "spec", "text": t} if t else None

    def nontrivial(self, op, impl):
        return klass(impl) in ("ok", "err", "other")

    def release_judge(self, op, dbg, rel):
        """the optimized build's answer through the same direct oracle"""
        return self.bad(op, rel)


STACK = re.compile(r"overflowed its stack|stack overflow")
MEM = re.compile(r"SIGSEGV|SIGBUS|misaligned pointer dereference|unsafe precondition|OUTSIDE\(|!MISALIGNED|MISALIGNED")


class C01(Cross):
    release_check = True        # the optimized build has no UB-check aborts: its answers go through the same oracle and must not differ
    pid = "C01"
    title = "memory safety"
    thm_modules = ["PeliteModel.Thm.C01"]

    def bad(self, op, impl):
        k = klass(impl)
        if k == "crash" and not STACK.search(impl):
            # SIGSEGV / SIGBUS = access outside the guarded buffer; SIGABRT that is not a stack
            # overflow = a non-unwinding panic, i.e. one of the checked build's UB precondition checks
            # (misaligned pointer dereference, slice::from_raw_parts, get_unchecked, …): ordinary
            # panics are caught by the harness and reported as `panic`, never as a crash
            return "memory fault / UB check abort in the implementation: %s" % impl[:400]
        if k != "crash" and ("OUTSIDE(" in impl or "MISALIGNED" in impl):
            return "returned reference outside the buffer or misaligned: %s" % impl[:300]
        return None

    def release_judge(self, op, dbg, rel):
        t = self.bad(op, rel)
        if t:
            return t
        # two profiles returning different values / errors (neither panicking) is what undefined
        # behaviour looks like from outside
        if klass(dbg) in ("ok", "err", "other") and klass(rel) in ("ok", "err", "other") and dbg != rel:
            return "checked and optimized builds return different results"
        return None


class C02(Cross):
    release_check = True        # "checked (debug) and optimized builds"
    pid = "C02"
    title = "totality"
    thm_modules = ["PeliteModel.Thm.C02", "PeliteModel.Thm.C02Arith"]
    # C02's theorems speak about the CHECKED model (`…Chk`: panicking arithmetic / indexing at the Rust sites,
    # Model/PeChecked.lean).  For the operation families the driver answers with that model, this property's own run
    # ALSO applies the default model-vs-implementation agreement (kind "model"), so that `./check C02` by itself
    # ties the checked model to the code (the direct oracle above it only classifies the implementation's outcome).
    # Error kinds are judged by the statement of the property that owns the family, as in every pulling property.
    pulls_others = True
    CHECKED_FAMS = ("from_bytes", "hdr", "hdrw", "hdrw2", "r2f", "f2r", "r2v", "v2r", "slice", "slice_bytes", "read", "read_bytes",
                    "secbytes", "to_view", "to_file", "img_to_view", "img_to_file", "byname", "byrva")
    CHECKED_PREFIX = ("derva", "deref")

    def has_checked_model(self, fam):
        return fam in self.CHECKED_FAMS or fam.startswith(self.CHECKED_PREFIX)

    def stats(self):
        return dict(getattr(self, "judged", {}))

    def judge(self, op, impl, model, spec):
        r = Cross.judge(self, op, impl, model, spec)
        if r:
            # (one verdict per operation: a panic of the implementation is reported — or recognised as the known
            # alignment finding — by the direct oracle, never a second time as a disagreement)
            return r
        fam = op.split(" ", 1)[0]
        if self.has_checked_model(fam):
            if not hasattr(self, "judged"):
                self.judged = {"checked_model_compared": 0}
            self.judged["checked_model_compared"] += 1
            self.judged["compared_" + fam] = self.judged.get("compared_" + fam, 0) + 1
            if not self.agree(op, impl, model):
                return {"kind": "model", "text": "impl=%s checked-model=%s" % (impl[:300], model[:300]), "hyp": spec_field(spec, "hyp")}
        return None

    def bad(self, op, impl):
        k = klass(impl)
        if k == "panic":
            return "the implementation panicked: %s" % impl[:300]
        if k == "crash":
            return "the implementation aborted / crashed: %s" % impl[:300]
        return None


class C03(Cross):
    pid = "C03"
    title = "termination"
    thm_modules = ["PeliteModel.Thm.C03", "PeliteModel.Thm.C03Fmt", "PeliteModel.Thm.C03WFmt", "PeliteModel.Thm.C13WFmt", "PeliteModel.Thm.C03Scan"]

    def judge(self, op, impl, model, spec):
        r = Cross.judge(self, op, impl, model, spec)
        if r:
            return r
        # the formatter model is compared exactly (its loops are what C03 is about)
        if op.startswith("fmt_cstr ") and impl != model:
            return {"kind": "model", "text": "impl=%s model=%s" % (impl[:300], model[:300]), "hyp": "1"}
        return None

    def bad(self, op, impl):
        k = klass(impl)
        if k == "timeout":
            return "the implementation did not finish within the per-operation budget"
        if k == "crash" and STACK.search(impl):
            return "stack exhausted (unbounded recursion): %s" % impl[:300]
        if impl.startswith("diverge") or "too many" in impl:
            return "item count beyond the input-size bound: %s" % impl[:300]
        if impl == "toolong" and op.startswith("iter ") and self._imglen is not None and 70000 > self._imglen // 2:
            # the harness gave up after 70000 items: more than (input length / 2) items, 2 bytes being the
            # smallest record any iterator of the crate walks (name indices, relocation words)
            return "an iterator yields more than 70000 items from an input of %d bytes (bound: length / smallest record size = %d)" % (self._imglen, self._imglen // 2)
        return None

    _imglen = None

    def begin_case(self, case):
        # the largest buffer of the case; unknown (not judged) when an operation replaces the buffer by a converted one
        self._imglen = None
        if any(l.startswith("img_to_") for l in case):
            return
        for l in case:
            if l.startswith("img "):
                w = l.split(" ")
                if len(w) > 3:
                    self._imglen = max(self._imglen or 0, 0 if w[3] == "-" else len(w[3]) // 2)


PROPS = [C01(), C02(), C03()]
