"""C15 — debug, TLS, load-config, exception and security directories are decoded as stored."""
import re
from . import gen_dirs
from .props import Prop, spec_field, klass


def gen_dirs_iter(rng, tier):
    """iterator histories (front, back, nth, len, clone) over the debug entry and runtime function iterators"""
    from .props_misc import histories
    hs = histories(rng, 100 if tier == "quick" else 2000)
    cases = []
    src = gen_dirs.gen_dirs(gen_dirs.rng_clone(rng) if hasattr(gen_dirs, "rng_clone") else rng, "quick")
    for case in src if tier != "quick" else rng.sample(src, min(50, len(src))):
        ks = sorted(set(l.split(" ")[1] for l in case if l.startswith("debug ")))
        if not ks:
            continue
        out = [l for l in case if l.startswith("img ") or l.startswith("from_bytes ")]
        for k in ks:
            for so in (("wdebug",) if k.startswith("w") else ("debug", "exc")):
                for h in rng.sample(hs, 4):
                    out.append("iter %s %s %s" % (k.split("@")[0], so, h))
        cases.append(out)
    return cases


class C15(Prop):
    named_errors = {"Null", "Invalid"}    # "absent directories (null error) and sizes that are not a record multiple (invalid)"
    pid = "C15"
    title = "Debug, TLS, load-config, exception, security directories are decoded as stored"
    thm_modules = ["PeliteModel.Thm.C15", "PeliteModel.Thm.C15Guid", "PeliteModel.Thm.ImageLayout", "PeliteModel.Thm.C15Layout"]

    @property
    def gens(self):
        return [gen_dirs.gen_dirs_corpus, gen_dirs.gen_dirs_examples, gen_dirs.gen_dirs, gen_dirs.gen_dirs_cv_bounds, gen_dirs.gen_dirs_misc_bounds,
                gen_dirs.gen_dirs_overlay, gen_dirs.gen_dirs_fuzz, gen_dirs.gen_pogo_hist, gen_dirs_iter]

    def judge(self, op, impl, model, spec):
        if op.startswith("iter "):
            t = self.oracle(op, impl, model, spec)      # answered by the harness alone (iterator vs deque of its items)
            return {"kind": "spec", "text": t} if t else None
        return Prop.judge(self, op, impl, model, spec)

    def oracle(self, op, impl, model, spec):
        a = op.split(" ")
        fam = a[0]
        if fam == "iter":
            # "the debug directory reports Size/28 entries", "Size/12 function records": the entry iterators consumed
            # from either end, by nth, len, clone must behave like the sequence of those entries
            if klass(impl) in ("panic", "crash", "timeout"):
                return "iterator history: %s: %s" % (klass(impl), impl[:200])
            if klass(impl) == "ok" and ("deque_same=0" in impl or "fused=0" in impl or "twin_same=0" in impl or "imglen_same=0" in impl):
                return "directory entry iterator disagrees with the sequence of its items / is not fused: %s" % impl[:300]
            return None
        if klass(impl) in ("panic", "crash", "timeout"):
            # C01-C03 obligations of these decoders: the theorems say no image makes them panic, fault or hang
            return "%s: %s" % (klass(impl), impl[:200])
        if "MISALIGNED" in impl or "OUTSIDE" in impl:
            return "a returned reference is misaligned or outside the buffer: %s" % impl[:300]
        if fam == "pogo_hist":
            # every history on the real PgoIter answers like the same calls on the plain list of the records, and the
            # iterator is fused (C18_pgo_is_seq / C18_pgo_fused_history say so of the model)
            want = spec_field(spec, "spec")
            m = re.match(r"ok (.*) fused=(\d)$", impl)
            if not m:
                return "POGO history answer not understood: %s" % impl[:200]
            if m.group(2) != "1":
                return "PgoIter is not fused: %s" % impl[:200]
            if want is not None and m.group(1) != want:
                return "POGO history answered %s, the same calls on the list of the records give %s" % (m.group(1)[:200], want[:200])
            return None
        if fam == "exc" and len(a) == 4 and a[2] == "lookup":
            if not impl.startswith("ok ") or spec_field(spec, "hyp") != "1":
                return None
            want = spec_field(spec, "spec")          # found=<i> | none   (linear scan over the sorted table)
            m = re.match(r"ok (found|notfound)=(\d+) fn=(\S+)", impl)
            if not m:
                return "lookup answer not understood: %s" % impl[:200]
            got = "found=%s" % m.group(2) if m.group(1) == "found" else "none"
            if got != want:
                return "sorted table: lookup of pc %s answered %s, the record whose [begin, end) contains it is %s" % (a[3], impl[:100], want)
            if (m.group(1) == "found") != (m.group(3) != "none"):
                return "index_of and lookup_function_entry disagree: %s" % impl[:200]
            return None
        if fam == "debug":
            s = spec_field(spec, "spec")
            if s is None:
                return None
            if s.startswith("!"):
                if impl != "err " + s[1:]:
                    return "debug directory: specification says %s, library answered %s" % (s, impl[:200])
                return None
            m = re.match(r"n=(\d+),data=\[(.*)\]$", s)
            if not m or not impl.startswith("ok "):
                return "debug directory of %s entries by the format, library answered %s" % (s[:60], impl[:200])
            got_n = re.search(r" n=(\d+) ", impl)
            got_data = re.findall(r" data=(\S+) entry=", impl)
            want_data = m.group(2).split(",") if m.group(2) else []
            if not got_n or got_n.group(1) != m.group(1):
                return "debug directory: %s entries by Size/28, library reports %s" % (m.group(1), got_n.group(1) if got_n else impl[:100])
            if got_data != want_data:
                return "debug raw data windows %s differ from SizeOfData bytes at the stored pointer %s" % (got_data[:8], want_data[:8])
            return None
        if fam == "tls" and impl.startswith("ok "):
            s = spec_field(spec, "cbs")
            m = re.search(r" cbs=(\S+)$", impl)
            if s is None or not m:
                return None
            got = m.group(1)
            got = got[got.index("["):] if "[" in got else got
            if got != s:
                return "TLS callbacks %s, the VA list up to its zero entry is %s" % (got[:200], s[:200])
            return None
        if fam == "security":
            if spec_field(spec, "hyp") != "1":
                return None
            s = spec_field(spec, "spec")
            if s.startswith("!"):
                if impl != "err " + s[1:]:
                    return "security directory of a mapped view / of an image without the data-directory entry: expected %s, got %s" % (s, impl[:200])
                return None
            m = re.match(r"ok img=\S+ len=\d+ rev=\d+ type=(\d+) data=(\S+)$", impl)
            if not m or "type=%s,data=%s" % (m.group(1), m.group(2)) != s:
                return "certificate: library answered %s, stored is %s" % (impl[:200], s)
            return None
        return None

    def nontrivial(self, op, impl):
        if not impl.startswith("ok "):
            return False
        if " n=0 " in impl or "notfound" in impl:
            return False
        return True


PROPS = [C15()]
