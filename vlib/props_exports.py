"""C08 — export lookups agree with the export tables for every table shape."""
import re
from . import gen_exports
from .props import Prop, spec_field, klass

REF = re.compile(r"@(\d+:\d+|static)")


def strip_refs(ans):
    """the answer without its references, in the form the specification prints"""
    return REF.sub("", ans).replace(" ", "_")


def _items(s):
    return [x for x in s.split(";")] if s else []


def _tab(ans, key):
    m = re.search(r" %s=\[([^\]]*)\]@(\S+)" % key, ans)
    if not m:
        return None, None
    vals = [int(x) for x in m.group(1).split(",")] if m.group(1) else []
    return vals, m.group(2)


def dump_consistent(ans):
    """internal consistency of one implementation dump: every iterator item is the entry the printed
    tables denote (independent of the Lean model)"""
    if " by=ok " not in ans:
        return None
    F, fref = _tab(ans, "F")
    N, nref = _tab(ans, "N")
    I, iref = _tab(ans, "I")
    if F is None or N is None or I is None:
        return "unparsable dump"
    m = re.search(r" iter=\[([^\]]*)\] iter_names=\[([^\]]*)\] iter_name_indices=\[([^\]]*)\]", ans)
    if not m:
        return "unparsable iterators"
    it, itn, ini = _items(m.group(1)), _items(m.group(2)), _items(m.group(3))
    if len(it) != len(F):
        return "iter yields %d items for %d functions" % (len(it), len(F))
    foff = int(fref.split(":")[0]) if fref != "static" else None
    for i, (x, v) in enumerate(zip(it, F)):
        if v == 0:
            if x != "err:Null":
                return "iter[%d]: zero entry reported as %s" % (i, x)
        elif x.startswith("Symbol("):
            if x != "Symbol(%d)@%d:4" % (v, foff + 4 * i):
                return "iter[%d]: %s is not the table entry %d at %d" % (i, x, v, foff + 4 * i)
        elif not (x.startswith("Forward(") or x.startswith("err:")):
            return "iter[%d]: %s" % (i, x)
    if len(itn) != len(N):
        return "iter_names yields %d items for %d names" % (len(itn), len(N))
    names = []
    for h, x in enumerate(itn):
        mm = re.match(r"\((.*),([^,]*)\)$", x)
        if not mm:
            return "iter_names[%d]: %s" % (h, x)
        names.append(mm.group(1))
        want = "err:Bounds" if h >= len(I) or I[h] >= len(F) else it[I[h]]
        if mm.group(2) != want:
            return "iter_names[%d]: export %s, the tables denote %s" % (h, mm.group(2), want)
    if len(ini) != min(len(N), len(I)):
        return "iter_name_indices yields %d items for %d names / %d indices" % (len(ini), len(N), len(I))
    for h, x in enumerate(ini):
        if x != "(%s,%d)" % (names[h], I[h]):
            return "iter_name_indices[%d]: %s, the tables denote (%s,%d)" % (h, x, names[h], I[h])
    return None


class C08(Prop):
    named_errors = {"Null", "Bounds"}     # "a zero entry as null, an unknown name or out-of-range ordinal as null/bounds"
    pid = "C08"
    title = "export lookups agree with the export tables for every table shape"
    thm_modules = ["PeliteModel.Thm.C08", "PeliteModel.Thm.ImageLayout"]
    gens = [gen_exports.gen_exports_corpus, gen_exports.gen_exports_shapes, gen_exports.gen_exports]

    def oracle(self, op, impl, model, spec):
        k = klass(impl)
        if k in ("panic", "crash", "timeout"):
            # C02/C03 obligations of this module: the theorems say no image makes it panic or hang
            return "%s: %s" % (k, impl[:200])
        if "!MISALIGNED" in impl or "OUTSIDE(" in impl:
            # C01 obligation: every returned reference lies in the buffer and is aligned for its type
            return "reference outside the buffer or misaligned: %s" % impl[:300]
        if op.startswith("exports "):
            r = dump_consistent(impl)
            if r:
                return "dump: " + r
            return None
        if spec_field(spec, "hyp") != "1":
            return None
        want = spec_field(spec, "spec")
        if want is None:
            return None
        got = strip_refs(impl)
        if got != want:
            return "lookup answered %s, the export tables denote %s" % (impl[:300], want[:300])
        return None

    def nontrivial(self, op, impl):
        if op.startswith("exports "):
            return " by=ok F=[" in impl and " F=[]" not in impl
        return impl.startswith("ok ")


PROPS = [C08()]
