"""C08 — export lookups agree with the export tables for every table shape."""
import re
from . import gen_exports, gen_img
from .props import Prop, spec_field, klass

REF = re.compile(r"@(\d+:\d+|static)")


def strip_refs(ans):
    """the answer without its references, in the form the specification prints"""
    return REF.sub("", ans).replace(" ", "_")


ACCEPT = re.compile(r"(?:^| )accept=\[([^\]\s]*)\]")
SYMFWD = re.compile(r"ok sym=(?:some:(\d+)|none) fwd=(?:some:([0-9a-f]+|-)@\S+|none)$")


def accept_set(spec):
    """the acceptable-answer set `accept=[a;b;…]` the model prints for a lookup by name (`Spec.acceptName`,
    in the text of `spec=`); None when the operation carries none"""
    m = ACCEPT.search(spec)
    if not m:
        return None
    return m.group(1).split(";") if m.group(1) else []


def in_accept(got, acc, named):
    """membership of an answer (in the form of `strip_refs`) in the acceptable-answer set: a value, and an
    error kind the statement names, literally; an error kind it does not name by class (some failure of an
    unnamed kind is acceptable)"""
    if got in acc:
        return True
    if got.startswith("err_") and got[4:] not in named:
        return any(a.startswith("err_") and a[4:] not in named for a in acc)
    return False


def symfwd_as_lookup(impl):
    """`ok sym=… fwd=…` (`Export::symbol()` / `Export::forward()` of a lookup's answer) in the form the
    specification prints the lookup's answer; (text, None) or (None, complaint)"""
    if not impl.startswith("ok "):
        return strip_refs(impl), None
    m = SYMFWD.match(impl)
    if not m:
        return None, "unparsable answer %s" % impl[:200]
    sym, fwd = m.group(1), m.group(2)
    if (sym is None) == (fwd is None):
        return None, "symbol() and forward() must be Some for exactly one of them: %s" % impl[:200]
    return ("ok_Symbol(%s)" % sym) if sym is not None else ("ok_Forward(%s)" % fwd), None


def _items(s):
    return [x for x in s.split(";")] if s else []


def _tab(ans, key):
    m = re.search(r" %s=\[([^\]]*)\]@(\S+)" % key, ans)
    if not m:
        return None, None
    vals = [int(x) for x in m.group(1).split(",")] if m.group(1) else []
    return vals, m.group(2)


def dump_consistent(ans):
    """internal consistency of one implementation dump: every iterator item is the entry the printed
    tables denote (independent of the Lean model)"""
    if " by=ok " not in ans:
        return None
    F, fref = _tab(ans, "F")
    N, nref = _tab(ans, "N")
    I, iref = _tab(ans, "I")
    if F is None or N is None or I is None:
        return "unparsable dump"
    m = re.search(r" iter=\[([^\]]*)\] iter_names=\[([^\]]*)\] iter_name_indices=\[([^\]]*)\]", ans)
    if not m:
        return "unparsable iterators"
    it, itn, ini = _items(m.group(1)), _items(m.group(2)), _items(m.group(3))
    if len(it) != len(F):
        return "iter yields %d items for %d functions" % (len(it), len(F))
    foff = int(fref.split(":")[0]) if fref != "static" else None
    for i, (x, v) in enumerate(zip(it, F)):
        if v == 0:
            if x != "err:Null":
                return "iter[%d]: zero entry reported as %s" % (i, x)
        elif x.startswith("Symbol("):
            if x != "Symbol(%d)@%d:4" % (v, foff + 4 * i):
                return "iter[%d]: %s is not the table entry %d at %d" % (i, x, v, foff + 4 * i)
        elif not (x.startswith("Forward(") or x.startswith("err:")):
            return "iter[%d]: %s" % (i, x)
    if len(itn) != len(N):
        return "iter_names yields %d items for %d names" % (len(itn), len(N))
    names = []
    for h, x in enumerate(itn):
        mm = re.match(r"\((.*),([^,]*)\)$", x)
        if not mm:
            return "iter_names[%d]: %s" % (h, x)
        names.append(mm.group(1))
        want = "err:Bounds" if h >= len(I) or I[h] >= len(F) else it[I[h]]
        if mm.group(2) != want:
            return "iter_names[%d]: export %s, the tables denote %s" % (h, mm.group(2), want)
    if len(ini) != min(len(N), len(I)):
        return "iter_name_indices yields %d items for %d names / %d indices" % (len(ini), len(N), len(I))
    for h, x in enumerate(ini):
        if x != "(%s,%d)" % (names[h], I[h]):
            return "iter_name_indices[%d]: %s, the tables denote (%s,%d)" % (h, x, names[h], I[h])
    return None


class C08(Prop):
    named_errors = {"Null", "Bounds"}     # "a zero entry as null, an unknown name or out-of-range ordinal as null/bounds"

    def own_named(self, op):
        # the reverse lookups on a self-contradictory directory: no kind is named for them
        w = op.split(" ")
        if len(w) > 2 and w[0] == "export" and w[2] in ("name_lookup", "name_of_hint"):
            return set()
        return self.named_errors
    pid = "C08"
    title = "export lookups agree with the export tables for every table shape"
    thm_modules = ["PeliteModel.Thm.C08", "PeliteModel.Thm.ImageLayout", "PeliteModel.Thm.C08Layout", "PeliteModel.Thm.Witnesses64"]
    gens = [gen_exports.gen_exports_corpus, gen_exports.gen_exports_shapes, gen_exports.gen_exports_big, gen_exports.gen_exports_nulltables, gen_exports.gen_exports, gen_img.module_twin_cases(gen_exports.gen_exports)]

    def oracle(self, op, impl, model, spec):
        k = klass(impl)
        if k in ("panic", "crash", "timeout"):
            # C02/C03 obligations of this module: the theorems say no image makes it panic or hang
            return "%s: %s" % (k, impl[:200])
        if "!MISALIGNED" in impl or "OUTSIDE(" in impl:
            # C01 obligation: every returned reference lies in the buffer and is aligned for its type
            return "reference outside the buffer or misaligned: %s" % impl[:300]
        if op.startswith("exports "):
            w = op.split(" ")
            m = re.match(r"(ok img=\S+ dll=\S+ base=\d+)( |$)", impl)
            if len(w) == 3 and w[2] == "dump":
                self.heads[w[1]] = m.group(1) if m and " by=ok " in impl else None
            elif len(w) == 3 and w[2] == "by":
                # `By` derefs to its `Exports` (the wrappers forward): header, library name and ordinal
                # base asked of the `By` are what the directory itself answered in the preceding dump
                head = self.heads.get(w[1])
                if head is not None and impl != head:
                    return "By::image/dll_name/ordinal_base answered %s, the directory itself %s" % (impl[:200], head[:200])
                return None
            r = dump_consistent(impl)
            if r:
                return "dump: " + r
            return None
        w = op.split(" ")
        if len(w) > 2 and w[2] == "symfwd":
            got, bad = symfwd_as_lookup(impl)
            if bad:
                return "symfwd: " + bad
        else:
            got = strip_refs(impl)
        # lookups by name on ANY table (sorted or not, duplicates or not): the answer is a member of the
        # acceptable-answer set of the tables (C08_name_in_accept / _hint_name_ / _import_ / _get_export_)
        acc = accept_set(spec)
        if acc is not None and not in_accept(got, acc, self.named_errors):
            return "lookup by name answered %s, which is none of the answers the export tables allow for that name: %s" % (
                impl[:300], ";".join(acc)[:300])
        if spec_field(spec, "hyp") != "1":
            return None
        want = spec_field(spec, "spec")
        if want is None:
            return None
        if got != want:
            # both fail: the statement names the kind only for "a zero entry as null, an unknown name or
            # out-of-range ordinal as null/bounds" (queries ordinal / index / hint / name / name_linear /
            # hint_name / import / get / proc); which kind a self-contradictory directory reports for the reverse
            # lookups (name_lookup, name_of_hint) is the library's choice
            q = w[2] if len(w) > 2 else ""
            if got.startswith("err") and want.startswith("err") and q in ("name_lookup", "name_of_hint"):
                return None
            return "lookup answered %s, the export tables denote %s" % (impl[:300], want[:300])
        return None

    def begin_case(self, case):
        self.heads = {}

    heads = {}

    def nontrivial(self, op, impl):
        if op.startswith("exports ") and op.endswith(" by"):
            return impl.startswith("ok img=")
        if op.startswith("exports "):
            return " by=ok F=[" in impl and " F=[]" not in impl
        return impl.startswith("ok ")


PROPS = [C08()]
