"""C09 — import descriptors, name tables and the IAT are decoded as stored."""
import re
from . import gen_imports
from .props import Prop, spec_field, klass


def semantic_imports(ans):
    """'ok img=..;n=N;{d=..,oft=..,ft=..,name=R:HEX,int=[..],iat=[..]};..' -> the generator's notation
    (dll name : decoded name table : raw address table values), references dropped"""
    if not ans.startswith("ok "):
        return None
    parts = []
    for m in re.finditer(r"\{d=[^,]*,oft=\d+,ft=\d+,name=([^,]*),int=(\[[^\]]*\]|![A-Za-z]+),iat=(\[[^\]]*\]|![A-Za-z]+)\}", ans):
        name, it, ia = m.groups()
        name = name.split(":")[2] if not name.startswith("!") else name
        parts.append("%s:%s:%s" % (name, _items(it), _vals(ia)))
    return ";".join(parts) or "-"


def _item(x):
    m = re.match(r"n(\d+)@\d+:\d+:(\S+)$", x)
    return "n%s:%s" % (m.group(1), m.group(2)) if m else x


def _items(s):
    if s.startswith("!"):
        return s
    return "/".join(_item(x) for x in s[1:-1].split("/") if x)


def _vals(s):
    if s.startswith("!"):
        return s
    return "/".join(x.split("=")[1] for x in s[1:-1].split("/") if x)


def semantic_iat(ans):
    m = re.match(r"ok img=\S+?;n=\d+;\[(\S*)\]$", ans)
    if not m:
        return None
    out = []
    for x in m.group(1).split("/"):
        if not x:
            continue
        v, it = x.split("=", 1)[1].split(">", 1)
        out.append("%s>%s" % (v, _item(it)))
    return "/".join(out) or "-"


def gen_imports_iter(rng, tier):
    """iterator histories (front, back, nth, len, clone) over the descriptor and IAT iterators of generated images"""
    from .props_misc import histories
    hs = histories(rng, 100 if tier == "quick" else 2000)
    cases = []
    src = gen_imports.gen_imports(gen_imports.rng_clone(rng), "quick")
    for case in src if tier != "quick" else rng.sample(src, min(60, len(src))):
        ks = sorted(set(l.split(" ")[1] for l in case if l.startswith("imports ")))
        if not ks:
            continue
        out = [l for l in case if l.startswith("img ") or l.startswith("from_bytes ")]
        for k in ks:
            for so in (("wimports",) if k.startswith("w") else ("imports", "iat")):
                for h in rng.sample(hs, 4):
                    out.append("iter %s %s %s" % (k.split("@")[0], so, h))
        cases.append(out)
    return cases


class C09(Prop):
    named_errors = {"Null"}               # "reports the null error rather than an empty or bogus table"
    pid = "C09"
    title = "Import descriptors, name tables and the IAT are decoded as stored"
    thm_modules = ["PeliteModel.Thm.C09", "PeliteModel.Thm.ImageLayout", "PeliteModel.Thm.C09Layout", "PeliteModel.Thm.Witnesses64"]

    @property
    def gens(self):
        return [gen_imports.gen_imports_corpus, gen_imports.gen_imports_edge, gen_imports.gen_imports_smallvs, gen_imports.gen_imports, gen_imports_iter]

    def judge(self, op, impl, model, spec):
        if op.startswith("iter "):
            # answered by the harness alone (the iterator against the deque of its own items)
            t = self.oracle(op, impl, model, spec)
            return {"kind": "spec", "text": t} if t else None
        return Prop.judge(self, op, impl, model, spec)

    def oracle(self, op, impl, model, spec):
        fam = op.split(" ", 1)[0]
        if fam == "iter":
            # "reported in order": the descriptor / IAT iterators consumed from either end, by nth, len, clone
            if klass(impl) in ("panic", "crash", "timeout"):
                return "iterator history: %s: %s" % (klass(impl), impl[:200])
            if klass(impl) == "ok" and ("deque_same=0" in impl or "fused=0" in impl):
                return "import iterator disagrees with the sequence of its items / is not fused: %s" % impl[:300]
            return None
        if fam not in ("imports", "iat"):
            return None
        if klass(impl) in ("panic", "crash", "timeout"):
            # C02 / C03 / C01 obligations of this module: no image makes it panic, crash or hang
            return "%s: %s" % (klass(impl), impl[:200])
        if "!MISALIGNED" in impl or "OUTSIDE" in impl:
            return "a returned reference is outside the buffer or misaligned for its type: %s" % impl[:300]
        if impl.startswith("noimg") or impl in ("bad-op", "none"):
            return None
        # the generator's own expectation for unmutated directories (semantic content, no references)
        m = re.search(r" exp=(\S+)$", op)
        if m:
            got = semantic_imports(impl) if fam == "imports" else semantic_iat(impl)
            if got != m.group(1):
                return "%s decoded as %s, the generator built %s" % (fam, (got or impl)[:300], m.group(1)[:300])
        if spec_field(spec, "hyp") != "1":
            return None
        want = spec_field(spec, "spec")
        if want is not None and impl.replace(" ", "_") != want:
            return "%s: library answered %s, the specification says %s" % (fam, impl[:300], want[:300])
        return None

    def nontrivial(self, op, impl):
        return impl.startswith("ok ") and ";n=0" not in impl


PROPS = [C09()]
