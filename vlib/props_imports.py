"""C09 — import descriptors, name tables and the IAT are decoded as stored."""
import re
from . import gen_imports
from .props import Prop, spec_field, klass


def semantic_imports(ans):
    """'ok img=..;n=N;{d=..,oft=..,ft=..,name=R:HEX,int=[..],iat=[..]};..' -> the generator's notation
    (dll name : decoded name table : raw address table values), references dropped"""
    if not ans.startswith("ok "):
        return None
    parts = []
    for m in re.finditer(r"\{d=[^,]*,oft=\d+,ft=\d+,name=([^,]*),int=(\[[^\]]*\]|![A-Za-z]+),iat=(\[[^\]]*\]|![A-Za-z]+)\}", ans):
        name, it, ia = m.groups()
        name = name.split(":")[2] if not name.startswith("!") else name
        parts.append("%s:%s:%s" % (name, _items(it), _vals(ia)))
    return ";".join(parts) or "-"


def _item(x):
    m = re.match(r"n(\d+)@\d+:\d+:(\S+)$", x)
    return "n%s:%s" % (m.group(1), m.group(2)) if m else x


def _items(s):
    if s.startswith("!"):
        return s
    return "/".join(_item(x) for x in s[1:-1].split("/") if x)


def _vals(s):
    if s.startswith("!"):
        return s
    return "/".join(x.split("=")[1] for x in s[1:-1].split("/") if x)


def semantic_iat(ans):
    m = re.match(r"ok img=\S+?;n=\d+;\[(\S*)\]$", ans)
    if not m:
        return None
    out = []
    for x in m.group(1).split("/"):
        if not x:
            continue
        v, it = x.split("=", 1)[1].split(">", 1)
        out.append("%s>%s" % (v, _item(it)))
    return "/".join(out) or "-"


class C09(Prop):
    named_errors = {"Null"}               # "reports the null error rather than an empty or bogus table"
    pid = "C09"
    title = "Import descriptors, name tables and the IAT are decoded as stored"
    thm_modules = ["PeliteModel.Thm.C09"]
    gens = [gen_imports.gen_imports_corpus, gen_imports.gen_imports_edge, gen_imports.gen_imports]

    def oracle(self, op, impl, model, spec):
        fam = op.split(" ", 1)[0]
        if fam not in ("imports", "iat"):
            return None
        if klass(impl) in ("panic", "crash", "timeout"):
            # C02 / C03 / C01 obligations of this module: no image makes it panic, crash or hang
            return "%s: %s" % (klass(impl), impl[:200])
        if "!MISALIGNED" in impl or "OUTSIDE" in impl:
            return "a returned reference is outside the buffer or misaligned for its type: %s" % impl[:300]
        if impl.startswith("noimg") or impl in ("bad-op", "none"):
            return None
        # the generator's own expectation for unmutated directories (semantic content, no references)
        m = re.search(r" exp=(\S+)$", op)
        if m:
            got = semantic_imports(impl) if fam == "imports" else semantic_iat(impl)
            if got != m.group(1):
                return "%s decoded as %s, the generator built %s" % (fam, (got or impl)[:300], m.group(1)[:300])
        if spec_field(spec, "hyp") != "1":
            return None
        want = spec_field(spec, "spec")
        if want is not None and impl.replace(" ", "_") != want:
            return "%s: library answered %s, the specification says %s" % (fam, impl[:300], want[:300])
        return None

    def nontrivial(self, op, impl):
        return impl.startswith("ok ") and ";n=0" not in impl


PROPS = [C09()]
