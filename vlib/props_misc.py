"""C18 (iterators as faithful sequences) and C19 (wrappers + JSON)."""
import re
from .props import Prop, klass, spec_field, REGISTRY
from . import gen_img, gen_walk
from .pe import simple_pe

HIST_OPS = ["next", "back", "nth:0", "nth:1", "nth:2", "nth:5", "len", "hint", "count", "clone", "fork", "sw", "sw", "nth:0xffffffffffffffff", "nth:0x7fffffffffffffff"]
SOURCES = ["imports", "imports_into", "int@0", "int@1", "desc_iat@0", "debug", "debug_into", "rich", "relocs", "pogo", "pogo_into", "exports", "exp_names", "exp_indices",
           "res_all", "res_named", "res_id", "res_all@0", "res_all@1", "res_id@0.0", "iat", "exc", "sections", "sections_into", "strings"]
# the iterators the format-agnostic wrappers hand out (k = wf | wv): each runs beside the iterator of the view inside the wrapper
WSOURCES = ["wimports", "wimports_into", "wdebug", "wdebug_into", "wiat", "wint@0", "wint@1", "wdesc_iat@0", "wexports", "wexp_names", "wexp_indices"]
# two live copies, calls interleaved (each copy must behave like its own deque)
FORK_HISTORIES = ["fork,next,sw,next,sw,next,sw,next", "next,fork,next,next,sw,hint,next,sw,hint,count", "fork,nth:1,sw,next,sw,next,sw,nth:0,hint",
                  "next,fork,back,sw,back,len,sw,len,next,sw,next", "fork,fork,next,sw,nth:2,sw,count,sw,hint,next", "fork,sw,clone,next,sw,next,len,sw,len",
                  "nth:0,fork,sw,nth:5,sw,next,hint,sw,hint,next", "fork,count,sw,count,next,sw,next,next,sw,back,hint"]


def histories(rng, n):
    out = []
    # exhaustive short histories over the core operations
    core = ["next", "back", "nth:1", "len"]
    for a in core:
        for b in core:
            for c in core:
                out.append(",".join([a, b, c, "next", "back", "next"]))
    out += FORK_HISTORIES
    for _ in range(n):
        k = rng.choice([1, 2, 4, 8, 16])
        out.append(",".join(rng.choice(HIST_OPS) for _ in range(k)))
    return out


# ---- images with sequences of controlled length (0..8), built with the module generators' own builders

def _kinds(bits, data, view):
    """(buffer, specific kind, wrapper kind) of the file and of the mapped view"""
    out = [(data, "f%d" % bits, "wf")]
    if view is not None:
        out.append((view, "v%d" % bits, "wv"))
    return out


def _img_exports(rng, bits, n):
    from . import gen_exports as G
    d = G.ExpDir()
    d.fns = [("fwd", b"k.f%d" % i) if i % 4 == 3 else 0x1000 + 0x10 * i for i in range(n)]
    m = rng.choice([0, n // 2, n, n]) if n else 0
    d.names = [(b"Name%02d" % i, rng.randrange(n)) for i in range(m)]
    b = G.build_image(rng, d, bits)
    want = {"exports": n, "exp_names": m, "exp_indices": m, "wexports": n, "wexp_names": m, "wexp_indices": m}
    return b.data, b.view, want, ["exports %s dump"]


def _img_imports(rng, bits, n):
    from . import gen_imports as G
    dlls = []
    for i in range(n):
        imps = [("o", 1 + j) if (i + j) % 3 == 0 else ("n", j, b"Fn%d_%d" % (i, j)) for j in range((i * 3 + n) % 9)]
        dlls.append(G.Dll(b"lib%d.dll" % i, imps, has_oft=True))
    order = rng.choice(["sitd", "sidt", "stid"])
    blob, info = G.lay_out(G.rng_clone(rng), bits, 0x1000, dlls, order=order, pad_front=8)
    pe, va = G.base_pe(rng, bits, len(blob))
    blob, info = G.lay_out(rng, bits, va, dlls, order=order, pad_front=8)
    sec = pe.sections[-1]
    sec.rs, sec.data, sec.vs = len(blob), bytes(blob), max(len(blob), 1)
    pe.dirs[1] = (va + info["desc_off"], 20 * (n + 1))
    pe.dirs[12] = (va + info["iat_off"], info["iat_size"])
    data = pe.build()
    want = {"imports": n, "imports_into": n, "wimports": n, "wimports_into": n, "iat": info["iat_size"] // (bits // 8), "wiat": info["iat_size"] // (bits // 8)}
    for i, d in enumerate(dlls[:2]):
        for s in ("int@%d", "wint@%d", "desc_iat@%d", "wdesc_iat@%d"):
            want[s % i] = len(d.imports)
    return data, gen_img.load_view(pe, data), want, ["imports %s dump", "iat %s dump"]


def _img_dirs(rng, bits, n):
    """debug directory with n entries (the first POGO entry holds n records), exception directory with n functions"""
    import struct
    from . import gen_dirs as G
    L = G.Layout(rng, bits)
    ents, first_pogo = [], True
    for i in range(n):
        if i == 1 or (n == 1):
            # POGO data: signature, then (rva, size, name padded to dwords) records
            blob = b"LTCG" + b"".join(struct.pack("<II", 0x1000 + 16 * j, 16) + G.pad4(b".text$%d" % j + b"\0") for j in range(n if first_pogo else 1))
            ty, first_pogo = 13, False
        elif i % 3 == 0:
            ty, blob = 2, G.cv_rsds(rng, b"a%d.pdb" % i)
        else:
            ty, blob = rng.choice([0, 1, 9, 16]), G.rand_bytes(rng, 8)
        pos = L.rdata.alloc(blob, 4)
        ents.append(struct.pack("<IIHHIIII", 0, 0x5F000000 + i, 1, 0, ty, len(blob), L.rdata.rva(pos), L.rdata.ptr(pos)))
    table = b"".join(ents)
    pos = L.rdata.alloc(table + bytes(28), 4)
    L.pe.dirs[G.DIR_DEBUG] = (L.rdata.rva(pos), len(table))
    recs = []
    for i in range(n):
        uw = bytes([1, 2, 1, 0]) + b"\x02\x32" + bytes(2)
        upos = L.rdata.alloc(uw, 4)
        recs.append(struct.pack("<III", L.text.va + 16 * i, L.text.va + 16 * i + 8, L.rdata.rva(upos)))
    pos = L.rdata.alloc(b"".join(recs) + bytes(12), 4)
    L.pe.dirs[G.DIR_EXCEPTION] = (L.rdata.rva(pos), 12 * n)
    data = L.build()
    want = {"debug": n, "debug_into": n, "wdebug": n, "wdebug_into": n, "exc": n}
    if n >= 1:
        want["pogo"] = want["pogo_into"] = n
    return data, gen_img.load_view(L.pe, data), want, ["debug %s dump", "exc %s dump"]


def _img_pogo_rand(rng, bits, n):
    """n debug entries, all POGO, with the record shapes of gen_dirs.pogo_blob (cut-off records, unterminated last name, a size that is
    not a multiple of 4): how many items the first one yields is the decoder's business (no expected length; the dump gives the items)"""
    import struct
    from . import gen_dirs as G
    L = G.Layout(rng, bits)
    ents = []
    for i in range(n):
        blob = G.pogo_blob(rng)
        pos = L.rdata.alloc(blob, 4)
        if pos is None:
            break
        ents.append(struct.pack("<IIHHIIII", 0, 0x5F000000 + i, 1, 0, 13, len(blob), L.rdata.rva(pos), L.rdata.ptr(pos)))
    table = b"".join(ents)
    pos = L.rdata.alloc(table + bytes(28), 4)
    L.pe.dirs[G.DIR_DEBUG] = (L.rdata.rva(pos), len(table))
    data = L.build()
    return data, gen_img.load_view(L.pe, data), {"debug": len(ents), "wdebug": len(ents), "pogo": None, "pogo_into": None}, ["debug %s dump"]


def _img_res(rng, bits, n):
    """root with n entries (named ones first); child i is a directory with (i + n) % 9 entries, each a directory with one data leaf"""
    from . import gen_res as G
    nn = rng.randrange(0, n + 1)
    kids = []
    for i in range(n):
        c = (i + n) % 9
        sub = G.RDir([(j + 1, G.RDir([(0x409, G.RData(b"d%d.%d" % (i, j), 0))], 0)) for j in range(c)], 0)
        kids.append((G.utf16("N%02d" % i) if i < nn else 100 + i, sub))
    t = G.RDir(kids, nn)
    sec = G.encode_canonical(t, 0x2000)
    pe = G.pe_with_rsrc(rng, sec, bits, 0x2000)
    data = pe.build()
    want = {"res_all": n, "res_named": nn, "res_id": n - nn}
    for i in range(min(n, 2)):
        want["res_all@%d" % i] = (i + n) % 9
    if n and n % 9:
        want["res_id@0.0"] = 1
    return data, gen_img.load_view(pe, data), want, []


def _img_rich(rng, bits, n):
    from . import gen_rich as G
    from .pe import PE, Section
    pe = PE(bits)
    st = G.mk_stub(rng, rng.choice(G.STUB_LENS[:6]))
    recs = G.mk_recs(rng, n)
    ws = G.header(G.checksum(st, recs), recs)
    pe.dos_stub = st[64:] + G.words(ws)
    pe.e_lfanew = 64 + len(pe.dos_stub)
    hdr = (pe.e_lfanew + 24 + pe.opt_size() + 8 * 16 + 40 + 0x1FF) // 0x200 * 0x200
    pe.sections = [Section(b".text", va=0x1000, vs=0x200, prd=hdr, rs=0x200, data=bytes(0x200))]
    data = bytearray(pe.build())
    data[2:60] = st[2:60]
    data = bytes(data)
    return data, gen_img.load_view(pe, data), {"rich": n}, ["rich %s"]


def _img_relocs(rng, bits, n):
    """n relocation blocks of 0..4 entries each (sizes dword aligned)"""
    import struct
    from .pe import PE, Section
    blob = b""
    for i in range(n):
        k = 2 * ((i + n) % 3)
        blob += struct.pack("<II", 0x1000 * (i + 1), 8 + 2 * k) + b"".join(struct.pack("<H", (3 << 12) | (8 * j)) for j in range(k))
    pe = PE(bits)
    raw = max(0x200, (len(blob) + 0x1FF) // 0x200 * 0x200)
    pe.sections = [Section(b".text", va=0x1000, vs=0x200, prd=0x200, rs=0x200, data=bytes(0x200)),
                   Section(b".reloc", va=0x2000, vs=max(len(blob), 1), prd=0x400, rs=raw, chars=0x42000040, data=blob + bytes(raw - len(blob)))]
    pe.dirs[5] = (0x2000, len(blob))
    data = pe.build()
    return data, gen_img.load_view(pe, data), {"relocs": n}, ["relocs %s dump"]


def _img_sections(rng, bits, n):
    pe = simple_pe(rng, bits, nsec=n)
    pe.num_rva = 16
    data = pe.build()
    return data, gen_img.load_view(pe, data), {"sections": n, "sections_into": n}, []


BUILDERS = [_img_exports, _img_imports, _img_dirs, _img_pogo_rand, _img_res, _img_rich, _img_relocs, _img_sections]


def gen_c18_built(rng, tier):
    """`iter` on images built by the module generators' builders: every sequence length 0..8, PE32 and PE32+, file and mapped view,
    through the format-specific constructor, through the wrapper unwrapped (specific sources on wf / wv) and through the wrapper's
    own iterators (`w…` sources); the modules' dump operations on the same image give the expected item lists"""
    cases = []
    nh = 2 if tier == "quick" else 12
    hs = histories(rng, 150 if tier == "quick" else 3000)
    flip = rng.randrange(2)
    for build in BUILDERS:
        for n in range(9):
            for bits in ((32, 64) if tier != "quick" else ((32, 64)[(n + flip) % 2],)):
                data, view, want, dumps = build(rng, bits, n)
                for buf, ks, kw in _kinds(bits, data, view):
                    case = [gen_img.img_line(rng, buf, rng.choice([0, 0, 8]), "e"), "from_bytes " + ks, "from_bytes " + kw]
                    for k in (ks, kw):
                        case += [d % k for d in dumps]
                    for src in sorted(want):
                        for k in ((kw,) if src.startswith("w") else (ks, kw)):
                            for h in rng.sample(hs, nh) + [rng.choice(FORK_HISTORIES)]:
                                case.append("iter %s %s %s%s" % (k, src, h, " want_n=%d" % want[src] if want[src] is not None else ""))
                    cases.append(case)
    return cases


def gen_c18(rng, tier):
    cases = []
    files = [(n, d) for n, d in gen_img.corpus_files() + gen_walk.pocs() if gen_walk.bits_of(d)]
    nh = 4 if tier == "quick" else 40
    hs = histories(rng, 200 if tier == "quick" else 4000)
    # every image that has at least one of the directories; the harness answers `err Null` otherwise
    pick = files if tier != "quick" else [f for f in files if f[0].endswith(".dll")] + rng.sample(files, 40)
    for name, data in pick:
        b = gen_walk.bits_of(data)
        case = [gen_img.img_line(rng, data, 0, "e")]
        if name.endswith(".dll"):
            # the expected item lists of the demo images: what the modules' dump operations report
            for k in ("f%d" % b, "wf"):
                case += [d % k for d in ("imports %s dump", "iat %s dump", "debug %s dump", "exports %s dump", "rich %s", "relocs %s dump", "exc %s dump")]
        for src in SOURCES + WSOURCES:
            ks = ("wf",) if src.startswith("w") else (("f%d" % b, "wf") if name.endswith(".dll") else ("f%d" % b,))
            for k in ks:
                for h in rng.sample(hs, nh if not src.startswith("w") else max(2, nh // 2)):
                    case.append("iter %s %s %s" % (k, src, h))
        cases.append(case)
    return cases


def _fnv(text):
    h = 0xcbf29ce484222325
    for x in text.encode("utf-8"):
        h = ((h ^ x) * 0x100000001b3) & 0xFFFFFFFFFFFFFFFF
    return "%016x" % h


def _bracket(ans, key):
    """the `;`/`,`/`/`-separated text of `key=[…]` in a dump answer, None when absent"""
    m = re.search(r"(?:^|[ ;,])%s=\[([^\]]*)\]" % re.escape(key), ans)
    return m.group(1) if m else None


def dump_items(src, dumps):
    """-> (list of canonical items | None when the dump does not determine them, dump family used)
    `dumps`: the implementation's answers of the dump operations of the same view kind, by family"""
    base = src.split("@")[0].lstrip("w") if src.startswith("w") else src.split("@")[0]
    arg = src.split("@")[1] if "@" in src else ""
    def split(t, sep):
        return [] if t == "" else t.split(sep)
    if base in ("imports", "imports_into", "int", "desc_iat"):
        a = dumps.get("imports")
        if not a or not a.startswith("ok "):
            return None
        descs = re.findall(r"\{d=([^,]+),oft=\d+,ft=\d+,name=[^,]*,int=(\[[^\]]*\]|![A-Za-z]+),iat=(\[[^\]]*\]|![A-Za-z]+)\}", a)
        if base.startswith("imports"):
            return [d[0] for d in descs]
        i = int(arg or "0", 0)
        if i >= len(descs):
            return None
        t = descs[i][1 if base == "int" else 2]
        return split(t[1:-1], "/") if t.startswith("[") else None
    if base == "iat":
        a = dumps.get("iat")
        m = re.match(r"ok img=[^;]*;n=\d+;\[(.*)\]$", a or "")
        return split(m.group(1), "/") if m else None
    if base in ("debug", "debug_into"):
        a = dumps.get("debug")
        return re.findall(r"\{hdr=(\S+) ", a) if a and a.startswith("ok ") else None
    if base in ("pogo", "pogo_into"):
        a = dumps.get("debug")
        m = re.search(r"entry=pgo\(img=[^,]*,\[([^\]]*)\]\)", a or "")
        return split(m.group(1), ",") if m else None
    if base in ("exports", "exp_names", "exp_indices"):
        a = dumps.get("exports")
        if not a or " by=ok " not in a:
            return None
        t = _bracket(a, {"exports": "iter", "exp_names": "iter_names", "exp_indices": "iter_name_indices"}[base])
        return split(t, ";") if t is not None else None
    if base == "rich":
        a = dumps.get("rich")
        t = _bracket(a, "recs") if a and a.startswith("ok ") else None
        return split(t, ",") if t is not None else None
    if base == "relocs":
        a = dumps.get("relocs")
        t = _bracket(a, "blocks") if a and a.startswith("ok ") else None
        return split(t, ",") if t is not None else None
    if base == "exc":
        a = dumps.get("exc")
        return re.findall(r"\{rf=(\S+) ", a) if a and a.startswith("ok ") else None
    return None


ITER_FLAGS = ("deque_same", "fused", "imglen_same", "layout_same", "twin_same", "want_n_same")


class C18(Prop):
    pulls_others = True      # error kinds of other modules' operation families: by their owner's statement
    pid = "C18"
    title = "iterators"
    thm_modules = ["PeliteModel.Thm.C18", "PeliteModel.Thm.C18Pgo"]

    @property
    def gens(self):
        from .props_cross import _sample
        out = [gen_c18, gen_c18_built]
        # the model-backed streams of the module slices whose answers are produced by iterating:
        # Rich record histories, relocation blocks, strings, and the `dump` operations of the debug
        # (POGO records), import and export directories — there the items themselves are checked
        # against the model, which the in-harness deque (built from the same iterator) cannot do
        for pid in ("C16", "C14", "C20", "C15", "C09", "C08"):
            p = REGISTRY.get(pid)
            if p:
                # (C16: the record-history generators in full, the others sampled — a Rich area that the
                # parser must reject, e.g. an odd number of dwords, is what keeps next/next_back paired)
                out += [g if pid in ("C14", "C20") or (pid == "C16" and "iter" in g.__name__) else _sample(g, 150, 3000) for g in p.gens]
        return out

    def begin_case(self, case):
        self.dumps = {}          # (family, kind) -> the implementation's dump answer on the current image
        if not hasattr(self, "_stats"):
            self._stats = {"iter_ok": 0, "items_compared_with_dump": 0, "wrapper_twin_histories": 0, "fork_histories": 0, "image_len_histories": 0,
                           "layout_histories": 0, "expected_length_histories": 0}

    def stats(self):
        """how many `iter` answers each direct oracle judged"""
        return dict(getattr(self, "_stats", {}))

    DUMP_OPS = {("imports", "dump"): "imports", ("iat", "dump"): "iat", ("debug", "dump"): "debug", ("exports", "dump"): "exports",
                ("relocs", "dump"): "relocs", ("exc", "dump"): "exc"}

    def iter_oracle(self, op, impl):
        """the in-harness flags, and the iterator's items against the item list of the module's dump operation on the same view"""
        st = self._stats
        st["iter_ok"] += 1
        for key, tok in (("wrapper_twin_histories", " twin_same="), ("image_len_histories", " imglen_same="), ("layout_histories", " layout_same="),
                         ("expected_length_histories", " want_n_same=")):
            st[key] += tok in impl
        st["fork_histories"] += " copies=1 " not in impl
        bad = [f for f in ITER_FLAGS if (" %s=0" % f) in impl]
        if bad:
            return "iterator history: %s — %s" % (", ".join(bad), impl[:400])
        w = op.split(" ")
        m = re.search(r" ids=(\S+) results=", impl)
        if m and len(w) >= 3:
            dumps = {fam: a for (fam, k), a in getattr(self, "dumps", {}).items() if k == w[1]}
            want = dump_items(w[2], dumps)
            if want is not None:
                st["items_compared_with_dump"] += 1
                text = ";".join(want) or "-"
                got = m.group(1)
                if got != (text if not got.startswith("#") else "#" + _fnv(text)):
                    return "the iterator's items differ from the items the module's dump operation reports on the same view: iter=%s dump=%s" % (got[:300], text[:300])
        return None

    def judge(self, op, impl, model, spec):
        w = op.split(" ")
        if w[0] == "iter":
            k = klass(impl)
            if k in ("panic", "crash", "timeout"):
                return {"kind": "spec", "text": "iterator history made the implementation %s: %s" % (k, impl[:200])}
            if k == "ok":
                r = self.iter_oracle(op, impl)
                if r:
                    return {"kind": "spec", "text": r}
            if not self.agree(op, impl, model):
                return {"kind": "model", "text": "impl=%s model=%s" % (impl[:300], model[:300]), "hyp": None}
            return None
        if len(w) >= 2:
            fam = "rich" if (w[0] == "rich" and len(w) == 2) else self.DUMP_OPS.get((w[0], w[2] if len(w) > 2 else ""))
            if fam and hasattr(self, "dumps"):
                self.dumps[(fam, w[1])] = impl
        return Prop.judge(self, op, impl, model, spec)

    def oracle(self, op, impl, model, spec):
        return None

    def nontrivial(self, op, impl):
        m = re.search(r"\bn=(\d+)", impl)
        return bool(m and int(m.group(1)) > 0) or (impl.startswith("ok") and not op.startswith("iter "))


WRAP_FAMS = ("slice", "secbytes", "byrva", "byname", "hdrw", "derva", "derva_copy", "derva_into", "derva_slice", "derva_slice_s", "derva_cstr", "jsonsub", "relocs", "exports", "export", "imports", "iat", "rich", "res", "debug", "tls", "loadcfg", "exc", "security", "scan", "finds", "pat_exec",
             "walk", "hdrw2", "slice_bytes", "derva_slice_f")


def gen_c19(rng, tier):
    """every wrapper-capable operation through wf/wv and through the specific constructor on the same image"""
    cases = []
    nimg = 50 if tier == "quick" else 1500
    files = [(n, d) for n, d in gen_img.corpus_files() + gen_walk.pocs() if gen_walk.bits_of(d)]
    imgs = []
    for _ in range(nimg):
        r = rng.random()
        if r < 0.4:
            pe = simple_pe(rng, nsec=rng.choice([1, 2, 3, 4]))
            gen_img.plant(rng, pe)
            data = pe.build()
            for i in range(16):
                if pe.sections and rng.random() < 0.4:
                    s = rng.choice(pe.sections)
                    pe.dirs[i] = ((s.va + rng.randrange(0, max(s.rs, 1))) & ~3, rng.choice([0, 8, 20, 28, 40, 0x100, s.rs]))
            data = pe.build()
            if rng.random() < 0.3:
                gen_img.adversarial_sections(rng, pe, len(data)); data = pe.build()
            imgs.append((pe.bits, data, pe))
        elif r < 0.7:
            n, d = rng.choice(files); imgs.append((gen_walk.bits_of(d), d, None))
        else:
            n, d = rng.choice(files); d = gen_walk.corrupt(rng, d)
            if gen_walk.bits_of(d):
                imgs.append((gen_walk.bits_of(d), d, None))
    for bits, data, pe in imgs:
        view = gen_img.load_view(pe, data) if pe is not None else None
        for mode, buf in (("f", data), ("v", view if view is not None else data)):
            ks, kw = "%s%d" % (mode, bits), "w" + mode
            case = [gen_img.img_line(rng, buf), "from_bytes " + kw, "from_bytes " + ks, "from_bytes %s%d" % (mode, 96 - bits)]
            # (`walk`: the whole wrapper API as one item stream; `rich` / `exc`: through `Wrap::rich_structure()` / `Wrap::exception()`)
            ops = ["hdrw %s", "jsonsub %s", "json %s", "relocs %s dump", "walk %s", "rich %s", "exc %s dump", "exc %s lookup 0x1010", "hdrw2 %s"] + C19.json_ops()
            rvas = [0, 1, 0x1000, 0x1004, 0x2000, rng.randrange(0, 0x4000)] + ([(s.va + rng.randrange(0, max(s.rs, 1))) & 0xFFFFFFFF for s in pe.sections] if pe else [rng.randrange(0, max(len(buf), 1)) for _ in range(4)])
            for r in rvas:
                ops += ["slice %%s 0x%x %d %d" % (r, rng.choice([0, 1, 8]), rng.choice([1, 2, 4])), "derva_copy %%s u32 0x%x" % r, "derva_cstr %%s 0x%x" % r,
                        "derva %%s u16 0x%x" % r, "derva_slice_s %%s u16 0x%x 0" % r, "derva_into %%s 5 0x%x" % r, "derva_slice %%s u32 0x%x 3" % r, "byrva %%s 0x%x" % r]
            for i in range(3):
                ops.append("secbytes %%s %d" % i)
            ops += ["byname %s 2e74657874", "byname %s 2e7273726300"]
            for o in ops:
                case.append(o % ks); case.append(o % kw)
            cases.append(case)
    # the serializer on the images of the directory modules' own generators (export / import / debug / tls /
    # load config / security shapes, shared and self-referential resource trees, Rich headers): every modelled
    # member of the document, through the constructors the case itself uses and through the wrapper
    harvested = []
    always = []          # images every run serializes, whatever the sampling below keeps
    for pid in ("C08", "C09", "C15", "C12", "C16"):
        p = REGISTRY.get(pid)
        for g in (p.gens if p else []):
            for c in g(rng, tier):
                if g.__name__ == "gen_dangling":
                    always.append((c[0], sorted(set(l.split(" ")[1] for l in c[1:] if re.match(r"(f32|f64|v32|v64)$", l.split(" ")[1])))))
                    continue
                img, kinds = None, set()
                for l in c:
                    if l.startswith("img "):
                        if img and kinds:
                            harvested.append((img, sorted(kinds)))
                        img, kinds = l, set()
                    elif img:
                        w = l.split(" ")
                        if len(w) >= 2 and re.match(r"(f32|f64|v32|v64)(@\w+)?$", w[1]):
                            kinds.add(w[1])
                if img and kinds:
                    harvested.append((img, sorted(kinds)))
    # (not the 2^16-entry tables of the `*_big` generators: their documents run to megabytes of text, which says
    # nothing new about the serializer and exceeds the answer caps of the runner)
    harvested = [h for h in harvested if len(h[0]) < 2 * (128 << 10)]
    lim = 250 if tier == "quick" else 5000
    if len(harvested) > lim:
        harvested = [harvested[i] for i in sorted(rng.sample(range(len(harvested)), lim))]
    for img, kinds in always + harvested:
        case = [img]
        for k in kinds:
            kw = "w" + k[0]
            case.append("json " + k)
            for o in C19.json_ops():
                case.append(o % k)
                if "@" not in k:
                    case.append(o % kw)
        cases.append(case)
    return cases


class C19(Prop):
    pulls_others = True      # error kinds of other modules' operation families: by their owner's statement
    named_errors = set()                  # error kinds: wrapper vs specific API are compared with each other exactly
    pid = "C19"
    title = "wrappers and JSON"
    thm_modules = ["PeliteModel.Thm.C19", "PeliteModel.Thm.C19Wrap", "PeliteModel.Thm.C19Json", "PeliteModel.Thm.C19Text", "PeliteModel.Thm.C15Guid", "PeliteModel.Thm.ImageLayout", "PeliteModel.Thm.C19Layout"]
    # top-level members of the serialized document that Model/JsonDirs.lean models whole:
    # `jsonsub <k> <field>` prints the member as canonical text on both sides (harness: read back from the
    # real serde_json text, order and duplicate keys kept), `jsontext <k> <field>` its exact printed bytes
    JSON_FIELDS = ["headers", "rich_structure", "exports", "imports", "base_relocs", "debug", "tls", "load_config", "security", "resources"]

    @classmethod
    def json_ops(cls):
        return ["jsonsub %%s %s" % f for f in cls.JSON_FIELDS] + ["jsontext %%s %s" % f for f in cls.JSON_FIELDS]

    @property
    def gens(self):
        from .props_cross import _sample
        # constructor selection on the header boundary images of C07, and the wrapper-capable
        # operations of every directory module (their generators issue them through wf / wv as well
        # as through the format-specific constructors; the answers are compared with the model of
        # the selected format and with each other)
        out = [gen_c19, _sample(gen_img.gen_c07_boundaries, 400, 4000), _sample(gen_img.gen_c07, 100, 2000)]
        for pid in ("C08", "C09", "C15", "C10", "C12", "C16"):
            p = REGISTRY.get(pid)
            if p:
                out += [_sample(g, 120, 2500) for g in p.gens]
        return out

    def _reset(self, img_line):
        """a new current image: nothing answered on the previous one is comparable any more"""
        self.seen = {}            # (mode, family, arguments) -> {full kind (with @base): projected answer}
        self.ctor = {}            # kind -> `from_bytes` answer
        self.magic = None         # 32 / 64: what the optional-header magic of the image says (None: unreadable / neither)
        if img_line:
            w = img_line.split(" ")
            try:
                self.magic = gen_walk.bits_of(bytes.fromhex(w[3]) if len(w) > 3 and w[3] != "-" else b"")
            except ValueError:
                self.magic = None

    def begin_case(self, case):
        self.lines = iter(case)
        self._reset(None)
        if not hasattr(self, "_stats"):
            self._stats = {"wrapper_vs_specific_compared": 0, "wrapper_vs_specific_skipped_selection_unknown": 0, "walk_digests_compared": 0,
                           "from_bytes_selection_judged": 0, "from_bytes_error_kind_judged": 0, "from_bytes_magic_judged": 0}

    def stats(self):
        return dict(getattr(self, "_stats", {}))

    def _sync(self, op):
        """follow the case text: `img` lines (not judged) and the conversions replace the current image"""
        for l in getattr(self, "lines", ()):
            if l.startswith("img "):
                self._reset(l)
                continue
            break

    def _selected(self, mode):
        """'32' / '64': the format the wrapper of this mode selected — from its own `from_bytes` answer when the case asked,
        else from the optional-header magic of the image (`C19_wrap_is_selected_parser`)"""
        a = self.ctor.get("w" + mode)
        if a in ("ok 32", "ok 64"):
            return a[3:]
        if a is None and self.magic:
            return str(self.magic)
        return None

    def _ctor_oracle(self, mode):
        """`from_bytes wf|wv` against `from_bytes` of the two format-specific parsers on the same buffer (all three answers are the
        implementation's): `C19_wrap_is_selected_parser` + `C19_wrap_error` (Thm/C19.lean) —
        the wrapper answers what the PE32+ parser answers, except that on its `PeMagic` it answers what the PE32 parser answers;
        and, from the image bytes: when the magic is readable the answer (acceptance AND error kind) is the one of the parser it names"""
        w, s32, s64 = self.ctor.get("w" + mode), self.ctor.get(mode + "32"), self.ctor.get(mode + "64")
        st = self._stats
        if w is None:
            return None
        if s64 is not None:
            if s64 != "err PeMagic":
                st["from_bytes_selection_judged"] += 1
                st["from_bytes_error_kind_judged"] += s64.startswith("err")
                if klass(s64) in ("ok", "err") and klass(w) in ("ok", "err") and w != s64:
                    return "agnostic constructor w%s answered `%s` but the PE32+ parser answered `%s` (not PeMagic): C19_wrap_error" % (mode, w, s64)
            elif s32 is not None:
                st["from_bytes_selection_judged"] += 1
                st["from_bytes_error_kind_judged"] += s32.startswith("err")
                if klass(s32) in ("ok", "err") and klass(w) in ("ok", "err") and w != s32:
                    return "agnostic constructor w%s answered `%s` but the PE32+ parser answered PeMagic and the PE32 parser `%s`: C19_wrap_error" % (mode, w, s32)
        if self.magic:
            named = self.ctor.get("%s%d" % (mode, self.magic))
            if named is not None and klass(named) in ("ok", "err") and klass(w) in ("ok", "err"):
                st["from_bytes_magic_judged"] += 1
                if w != named:
                    return "the optional-header magic names PE%s: its parser answered `%s`, the agnostic constructor w%s `%s`" % (
                        "32" if self.magic == 32 else "32+", named, mode, w)
                if w.startswith("ok") and w != "ok %d" % self.magic:
                    return "the agnostic constructor w%s selected %s on an image whose magic names %d" % (mode, w, self.magic)
        return None

    def _cmp_projection(self, op, impl):
        if op.startswith("walk "):
            m = re.search(r"witems=\d+ digest=\w+", impl)
            return m.group(0) if m else self.project(op, impl)
        return self.project(op, impl)

    def judge(self, op, impl, model, spec):
        self._sync(op)
        w = op.split(" ")
        fam = w[0]
        if fam in ("img_to_view", "img_to_file"):
            if impl.startswith("ok"):
                self._reset(None)
            return Prop.judge(self, op, impl, model, spec)
        if fam == "json":
            if klass(impl) == "other" and not impl.startswith("noimg"):
                return {"kind": "spec", "text": "serializing an accepted image failed or is not well formed: %s" % impl[:300]}
            if klass(impl) in ("panic", "crash", "timeout"):
                return {"kind": "spec", "text": "serializing an accepted image: %s" % impl[:300]}
            return None
        if fam == "walk" and impl.startswith("bad "):
            return {"kind": "spec", "text": "a reference handed out lies outside the buffer / is misaligned, or the rendering is not well formed: %s" % impl[:300]}
        r = Prop.judge(self, op, impl, model, spec)
        if r:
            return r
        if fam == "from_bytes" and len(w) == 2 and re.match(r"(w[fv]|[fv](32|64))$", w[1]):
            self.ctor[w[1]] = impl
            t = self._ctor_oracle(w[1][1] if w[1][0] == "w" else w[1][0])
            if t:
                return {"kind": "spec", "text": t}
        # wrapper vs specific API on the same image, same arguments: the wrapper's answer is compared with the answer of the
        # format-specific kind the wrapper SELECTED (full kind as key: f32 and f64 never share a slot; `v64@base` is its own kind)
        if len(w) >= 2 and (fam in WRAP_FAMS or fam == "jsontext"):
            k = w[1]
            if re.match(r"(w[fv]|[fv](32|64)(@\w+)?)$", k):
                mode = k[1] if k[0] == "w" else k[0]
                slot = self.seen.setdefault((mode, fam) + tuple(x for x in w[2:] if not re.match(r"(exp|expiat|want|tree|want_n)=", x)), {})
                slot[k] = self._cmp_projection(op, impl)
                wa = slot.get("w" + mode)
                if wa is not None:
                    sel = self._selected(mode)
                    if sel is None:
                        self._stats["wrapper_vs_specific_skipped_selection_unknown"] += k[0] == "w"
                    else:
                        sa = slot.get(mode + sel)
                        if sa is not None and (k == "w" + mode or k == mode + sel):
                            self._stats["wrapper_vs_specific_compared"] += 1
                            self._stats["walk_digests_compared"] += fam == "walk" and "digest=" in wa
                            if wa != sa:
                                return {"kind": "spec", "text": "wrapper and the format-specific API it selected (%s%s) disagree on the same image: wrapper=%s specific=%s" % (mode, sel, wa[:200], sa[:200])}
        return None

    def nontrivial(self, op, impl):
        w = op.split(" ")
        if w[0] in ("jsonsub", "jsontext") and len(w) == 3:
            return impl.startswith("ok ") and impl not in ("ok null", "ok []", "ok 6e756c6c", "ok 5b5d")
        return impl.startswith("ok")


PROPS = [C18(), C19()]
