"""C18 (iterators as faithful sequences) and C19 (wrappers + JSON)."""
import re
from .props import Prop, klass, spec_field, REGISTRY
from . import gen_img, gen_walk
from .pe import simple_pe

HIST_OPS = ["next", "back", "nth:0", "nth:1", "nth:2", "nth:5", "len", "hint", "count", "clone", "nth:0xffffffffffffffff", "nth:0x7fffffffffffffff"]
SOURCES = ["imports", "debug", "rich", "relocs", "pogo", "exports", "exp_names", "exp_indices", "res_all", "res_named", "res_id", "iat", "exc", "sections", "strings", "wimports", "wdebug"]


def histories(rng, n):
    out = []
    # exhaustive short histories over the core operations
    core = ["next", "back", "nth:1", "len"]
    for a in core:
        for b in core:
            for c in core:
                out.append(",".join([a, b, c, "next", "back", "next"]))
    for _ in range(n):
        k = rng.choice([1, 2, 4, 8, 16])
        out.append(",".join(rng.choice(HIST_OPS) for _ in range(k)))
    return out


def gen_c18(rng, tier):
    cases = []
    files = [(n, d) for n, d in gen_img.corpus_files() + gen_walk.pocs() if gen_walk.bits_of(d)]
    nh = 6 if tier == "quick" else 60
    hs = histories(rng, 200 if tier == "quick" else 4000)
    # every image that has at least one of the directories; the harness answers `err Null` otherwise
    pick = files if tier != "quick" else [f for f in files if f[0].endswith(".dll")] + rng.sample(files, 40)
    for name, data in pick:
        b = gen_walk.bits_of(data)
        case = [gen_img.img_line(rng, data, 0, "e")]
        for src in SOURCES:
            k = ("wf" if src.startswith("w") else "f%d" % b)
            for h in rng.sample(hs, nh):
                case.append("iter %s %s %s" % (k, src, h))
        cases.append(case)
    return cases


class C18(Prop):
    pulls_others = True      # error kinds of other modules' operation families: by their owner's statement
    pid = "C18"
    title = "iterators"
    thm_modules = ["PeliteModel.Thm.C18", "PeliteModel.Thm.C18Pgo"]

    @property
    def gens(self):
        from .props_cross import _sample
        out = [gen_c18]
        # the model-backed streams of the module slices whose answers are produced by iterating:
        # Rich record histories, relocation blocks, strings, and the `dump` operations of the debug
        # (POGO records), import and export directories — there the items themselves are checked
        # against the model, which the in-harness deque (built from the same iterator) cannot do
        for pid in ("C16", "C14", "C20", "C15", "C09", "C08"):
            p = REGISTRY.get(pid)
            if p:
                # (C16: the record-history generators in full, the others sampled — a Rich area that the
                # parser must reject, e.g. an odd number of dwords, is what keeps next/next_back paired)
                out += [g if pid in ("C14", "C20") or (pid == "C16" and "iter" in g.__name__) else _sample(g, 150, 3000) for g in p.gens]
        return out

    def judge(self, op, impl, model, spec):
        if op.startswith("iter "):
            k = klass(impl)
            if k in ("panic", "crash", "timeout"):
                return {"kind": "spec", "text": "iterator history made the implementation %s: %s" % (k, impl[:200])}
            if k == "ok" and ("deque_same=0" in impl or "fused=0" in impl):
                return {"kind": "spec", "text": "iterator disagrees with the deque of its items / is not fused: %s" % impl[:300]}
            return None
        return Prop.judge(self, op, impl, model, spec)

    def oracle(self, op, impl, model, spec):
        if "deque_same=0" in impl or "fused=0" in impl:
            return "iterator disagrees with the deque of its items / is not fused: %s" % impl[:300]
        return None

    def nontrivial(self, op, impl):
        m = re.search(r"\bn=(\d+)", impl)
        return bool(m and int(m.group(1)) > 0) or (impl.startswith("ok") and not op.startswith("iter "))


WRAP_FAMS = ("slice", "secbytes", "byrva", "byname", "hdrw", "derva", "derva_copy", "derva_into", "derva_slice", "derva_slice_s", "derva_cstr", "jsonsub", "relocs", "exports", "export", "imports", "iat", "rich", "res", "debug", "tls", "loadcfg", "exc", "security", "scan", "finds", "pat_exec")


def gen_c19(rng, tier):
    """every wrapper-capable operation through wf/wv and through the specific constructor on the same image"""
    cases = []
    nimg = 50 if tier == "quick" else 1500
    files = [(n, d) for n, d in gen_img.corpus_files() + gen_walk.pocs() if gen_walk.bits_of(d)]
    imgs = []
    for _ in range(nimg):
        r = rng.random()
        if r < 0.4:
            pe = simple_pe(rng, nsec=rng.choice([1, 2, 3, 4]))
            gen_img.plant(rng, pe)
            data = pe.build()
            for i in range(16):
                if pe.sections and rng.random() < 0.4:
                    s = rng.choice(pe.sections)
                    pe.dirs[i] = ((s.va + rng.randrange(0, max(s.rs, 1))) & ~3, rng.choice([0, 8, 20, 28, 40, 0x100, s.rs]))
            data = pe.build()
            if rng.random() < 0.3:
                gen_img.adversarial_sections(rng, pe, len(data)); data = pe.build()
            imgs.append((pe.bits, data, pe))
        elif r < 0.7:
            n, d = rng.choice(files); imgs.append((gen_walk.bits_of(d), d, None))
        else:
            n, d = rng.choice(files); d = gen_walk.corrupt(rng, d)
            if gen_walk.bits_of(d):
                imgs.append((gen_walk.bits_of(d), d, None))
    for bits, data, pe in imgs:
        view = gen_img.load_view(pe, data) if pe is not None else None
        for mode, buf in (("f", data), ("v", view if view is not None else data)):
            ks, kw = "%s%d" % (mode, bits), "w" + mode
            case = [gen_img.img_line(rng, buf), "from_bytes " + kw, "from_bytes " + ks, "from_bytes %s%d" % (mode, 96 - bits)]
            ops = ["hdrw %s", "jsonsub %s", "json %s", "relocs %s dump"] + C19.json_ops()
            rvas = [0, 1, 0x1000, 0x1004, 0x2000, rng.randrange(0, 0x4000)] + ([(s.va + rng.randrange(0, max(s.rs, 1))) & 0xFFFFFFFF for s in pe.sections] if pe else [rng.randrange(0, max(len(buf), 1)) for _ in range(4)])
            for r in rvas:
                ops += ["slice %%s 0x%x %d %d" % (r, rng.choice([0, 1, 8]), rng.choice([1, 2, 4])), "derva_copy %%s u32 0x%x" % r, "derva_cstr %%s 0x%x" % r,
                        "derva %%s u16 0x%x" % r, "derva_slice_s %%s u16 0x%x 0" % r, "derva_into %%s 5 0x%x" % r, "derva_slice %%s u32 0x%x 3" % r, "byrva %%s 0x%x" % r]
            for i in range(3):
                ops.append("secbytes %%s %d" % i)
            ops += ["byname %s 2e74657874", "byname %s 2e7273726300"]
            for o in ops:
                case.append(o % ks); case.append(o % kw)
            cases.append(case)
    # the serializer on the images of the directory modules' own generators (export / import / debug / tls /
    # load config / security shapes, shared and self-referential resource trees, Rich headers): every modelled
    # member of the document, through the constructors the case itself uses and through the wrapper
    harvested = []
    for pid in ("C08", "C09", "C15", "C12", "C16"):
        p = REGISTRY.get(pid)
        for g in (p.gens if p else []):
            for c in g(rng, tier):
                img, kinds = None, set()
                for l in c:
                    if l.startswith("img "):
                        if img and kinds:
                            harvested.append((img, sorted(kinds)))
                        img, kinds = l, set()
                    elif img:
                        w = l.split(" ")
                        if len(w) >= 2 and re.match(r"(f32|f64|v32|v64)(@\w+)?$", w[1]):
                            kinds.add(w[1])
                if img and kinds:
                    harvested.append((img, sorted(kinds)))
    lim = 250 if tier == "quick" else 5000
    if len(harvested) > lim:
        harvested = [harvested[i] for i in sorted(rng.sample(range(len(harvested)), lim))]
    for img, kinds in harvested:
        case = [img]
        for k in kinds:
            kw = "w" + k[0]
            case.append("json " + k)
            for o in C19.json_ops():
                case.append(o % k)
                if "@" not in k:
                    case.append(o % kw)
        cases.append(case)
    return cases


class C19(Prop):
    pulls_others = True      # error kinds of other modules' operation families: by their owner's statement
    named_errors = set()                  # error kinds: wrapper vs specific API are compared with each other exactly
    pid = "C19"
    title = "wrappers and JSON"
    thm_modules = ["PeliteModel.Thm.C19", "PeliteModel.Thm.C19Wrap", "PeliteModel.Thm.C19Json", "PeliteModel.Thm.ImageLayout"]
    # top-level members of the serialized document that Model/JsonDirs.lean models whole:
    # `jsonsub <k> <field>` prints the member as canonical text on both sides (harness: read back from the
    # real serde_json text, order and duplicate keys kept), `jsontext <k> <field>` its exact printed bytes
    JSON_FIELDS = ["headers", "rich_structure", "exports", "imports", "base_relocs", "debug", "tls", "load_config", "security", "resources"]

    @classmethod
    def json_ops(cls):
        return ["jsonsub %%s %s" % f for f in cls.JSON_FIELDS] + ["jsontext %%s %s" % f for f in cls.JSON_FIELDS]

    @property
    def gens(self):
        from .props_cross import _sample
        # constructor selection on the header boundary images of C07, and the wrapper-capable
        # operations of every directory module (their generators issue them through wf / wv as well
        # as through the format-specific constructors; the answers are compared with the model of
        # the selected format and with each other)
        out = [gen_c19, _sample(gen_img.gen_c07_boundaries, 400, 4000), _sample(gen_img.gen_c07, 100, 2000)]
        for pid in ("C08", "C09", "C15", "C10", "C12", "C16"):
            p = REGISTRY.get(pid)
            if p:
                out += [_sample(g, 120, 2500) for g in p.gens]
        return out

    def begin_case(self, case):
        self.seen = {}
        self.ctor = {}

    def judge(self, op, impl, model, spec):
        w = op.split(" ")
        fam = w[0]
        if fam == "json":
            if klass(impl) == "other" and not impl.startswith("noimg"):
                return {"kind": "spec", "text": "serializing an accepted image failed or is not well formed: %s" % impl[:300]}
            if klass(impl) in ("panic", "crash", "timeout"):
                return {"kind": "spec", "text": "serializing an accepted image: %s" % impl[:300]}
            return None
        r = Prop.judge(self, op, impl, model, spec)
        if r:
            return r
        if fam == "from_bytes" and len(w) == 2:
            # selection: the wrapper accepts with format b iff the parser of format b accepts
            self.ctor = getattr(self, "ctor", {})
            self.ctor[w[1]] = impl
            for kw, kind in (("wf", "f"), ("wv", "v")):
                a = self.ctor.get(kw)
                if a is None:
                    continue
                for b in ("32", "64"):
                    sp = self.ctor.get(kind + b)
                    if sp is None:
                        continue
                    if (a == "ok " + b) != (sp == "ok " + b) and not (a.startswith("ok") and a != "ok " + b):
                        return {"kind": "spec", "text": "agnostic constructor %s answered %s but the %s-bit parser answered %s" % (kw, a, b, sp)}
        # wrapper vs specific API on the same image, same arguments
        if len(w) >= 2 and (fam in WRAP_FAMS or fam == "jsontext"):
            k = w[1]
            key = (fam,) + tuple(w[2:])
            if k in ("wf", "wv") or re.match(r"[fv](32|64)$", k):
                side = "w" if k[0] == "w" else "s"
                kind = k[1] if k[0] == "w" else k[0]
                slot = self.seen.setdefault((kind,) + key, {})
                slot[side] = self.project(op, impl)
                if "w" in slot and "s" in slot and slot["w"] != slot["s"] and not slot["s"].startswith("noimg") and not slot["w"].startswith("noimg"):
                    return {"kind": "spec", "text": "wrapper and format-specific API disagree on the same image: wrapper=%s specific=%s" % (slot["w"][:200], slot["s"][:200])}
        return None

    def nontrivial(self, op, impl):
        w = op.split(" ")
        if w[0] in ("jsonsub", "jsontext") and len(w) == 3:
            return impl.startswith("ok ") and impl not in ("ok null", "ok []", "ok 6e756c6c", "ok 5b5d")
        return impl.startswith("ok")


PROPS = [C18(), C19()]
