"""C11 — pattern strings mean what the syntax documentation says.

* `pat_parse` (syntactic half): judged as in C17 (`props_pattern.judge_parse`).
* `pat_sem` (pattern string on the current image): the implementation's answer is compared exactly with the
  model's (correspondence) and, when the model says `hyp=1` (documented grammar, well formed, inside the
  fragment of Thm/C11.lean, coherent image interface), with the reference semantics `## spec=`.
* `pat_ref` (raw buffer): model only — the crate has no public API for raw buffers, the implementation answers
  `bad-op`.  Judged model-vs-specification under `hyp=1` (catches mistakes of the specification / theorem
  side), never a correspondence disagreement.
"""
import re
from .props import Prop, spec_field, klass
from . import gen_patsem, props_pattern

_OK_RE = re.compile(r"ok ([01]) save=\[([0-9,]*)\]\Z")
_SPEC_RE = re.compile(r"([01]):\[([0-9_,]*)\]\Z")


def _list(txt):
    return txt.split(",") if txt else []


def against_spec(who, ans, spec):
    """`ans` = 'ok b save=[..]' of `who` against the `spec=` field of an in-hypothesis input: None when it
    agrees, else a text"""
    want = spec_field(spec, "spec")
    ms = _SPEC_RE.match(want or "")
    if not ms:
        return "hyp=1 but the specification gave no answer (spec=%s); %s: %s" % (want, who, ans[:200])
    m = _OK_RE.match(ans)
    if not m:
        return "%s did not answer a well-formed pattern string of the documented fragment: %s (documented: %s)" % (who, ans[:200], want[:200])
    if m.group(1) != ms.group(1):
        return "%s answered %s, the documented semantics answers %s" % (who, "match" if m.group(1) == "1" else "no match",
                                                                        ("match with captures [%s]" % ms.group(2)[:200]) if ms.group(1) == "1" else "no match")
    if ms.group(1) == "1":
        got, exp = _list(m.group(2)), _list(ms.group(2))
        if len(got) != len(exp):
            return "%s returned %d save slots, the specification lists %d" % (who, len(got), len(exp))
        for i, (g, e) in enumerate(zip(got, exp)):
            if e != "_" and e != g:
                return "%s left %s in save[%d], the documented semantics stores %s (save=[%s], documented [%s])" % (
                    who, g, i, e, m.group(2)[:200], ms.group(2)[:200])
    return None


class C11(Prop):
    pid = "C11"
    title = "pattern strings mean what the syntax documentation says"
    thm_modules = ["PeliteModel.Thm.C11", "PeliteModel.Thm.C11Parse", "PeliteModel.Thm.C11Frame"]
    gens = gen_patsem.SEM_GENS + props_pattern.PARSE_GENS
    named_errors = set()     # the statement names no parse error kind: errors agree by class

    def judge(self, op, impl, model, spec):
        if op.startswith("pat_ref"):
            # model only: the model's own answer against the reference semantics
            if spec_field(spec, "hyp") == "1":
                r = against_spec("the interpreter model", model, spec)
                if r:
                    return {"kind": "spec", "text": "raw buffer (model vs. specification): " + r}
            elif klass(model) not in ("ok", "err"):
                return {"kind": "spec", "text": "raw buffer: the model did not answer: %s" % model[:200]}
            return None
        return Prop.judge(self, op, impl, model, spec)

    def oracle(self, op, impl, model, spec):
        if op.startswith("pat_parse"):
            return props_pattern.judge_parse(op, impl, model)
        if op.startswith("pat_sem"):
            if spec_field(spec, "hyp") != "1":
                return None
            return against_spec("the scanner", impl, spec)
        return None

    def nontrivial(self, op, impl):
        if op.startswith("pat_parse"):
            return impl.startswith("ok ") and not impl.endswith("atoms=Save(0)")
        if op.startswith("pat_sem"):
            return impl.startswith("ok 1")
        return False


PROPS = [C11()]
