"""C11 — pattern strings mean what the syntax documentation says.

* `pat_parse` (syntactic half): judged as in C17 (`props_pattern.judge_parse`).
* `pat_sem` (pattern string on the current image): the implementation's answer is compared exactly with the
  model's (correspondence) and, when the model says `hyp=1` (documented grammar, well formed, inside the
  fragment of Thm/C11.lean, coherent image interface), with the reference semantics `## spec=`.
  REGARDLESS of the fragment, when the model says `hypi=1` (documented grammar, well formed, coherent image
  interface: the hypotheses of the unconditional T2' of Thm/C11Impl.lean) the implementation's answer must equal
  the second reference semantics `## impl=` (`denoteImpl`: the last alternative continues into what follows the
  `)`, a trailing `[a-b]` means `[a]`).
  ALSO under `hypi=1` the implementation's answer is compared with `## doc=` (`denoteDoc`, Spec/PatternSemDoc.lean:
  `denoteImpl` with the DOCUMENTED, inclusive upper bound of every `[a-b]`): an input that needs exactly `b` skipped
  bytes is accepted by the documentation and rejected by the scanner — reported ("documented upper bound of [a-b] is
  not tried"); it is a recorded known finding (`known-findings.txt`, witness Thm/C11Doc.lean:
  C11_doc_upper_bound_differs), matched there through the model's `docdiff=1 run=.. implok=1` tokens so that only
  answers that agree with the model AND with `denoteImpl` are excused.
* `pat_ref` (raw buffer): model only — the crate has no public API for raw buffers, the implementation answers
  `bad-op`.  Judged model-vs-specification under `hyp=1` (catches mistakes of the specification / theorem
  side), never a correspondence disagreement.
"""
import re
from .props import Prop, spec_field, klass
from . import gen_patsem, props_pattern

_OK_RE = re.compile(r"ok ([01]) save=\[([0-9,]*)\]\Z")
_SPEC_RE = re.compile(r"([01]):\[([0-9_,]*)\]\Z")


def _list(txt):
    return txt.split(",") if txt else []


def against_spec(who, ans, spec, field="spec", what="the documented semantics"):
    """`ans` = 'ok b save=[..]' of `who` against the `spec=` (`impl=`) field of an in-hypothesis input: None when
    it agrees, else a text"""
    want = spec_field(spec, field)
    ms = _SPEC_RE.match(want or "")
    if not ms:
        return "in hypothesis but the specification gave no answer (%s=%s); %s: %s" % (field, want, who, ans[:200])
    m = _OK_RE.match(ans)
    if not m:
        return "%s did not answer a well-formed pattern string: %s (%s: %s)" % (who, ans[:200], what, want[:200])
    if m.group(1) != ms.group(1):
        return "%s answered %s, %s answers %s" % (who, "match" if m.group(1) == "1" else "no match", what,
                                                  ("match with captures [%s]" % ms.group(2)[:200]) if ms.group(1) == "1" else "no match")
    if ms.group(1) == "1":
        got, exp = _list(m.group(2)), _list(ms.group(2))
        if len(got) != len(exp):
            return "%s returned %d save slots, the specification lists %d" % (who, len(got), len(exp))
        for i, (g, e) in enumerate(zip(got, exp)):
            if e != "_" and e != g:
                return "%s left %s in save[%d], %s stores %s (save=[%s], specified [%s])" % (
                    who, g, i, what, e, m.group(2)[:200], ms.group(2)[:200])
    return None


IMPL_WHAT = "the second reference semantics (denoteImpl, Thm/C11Impl.lean)"


def against_both(who, ans, spec):
    """the fragment theorem (hyp=1: `spec=`) and the unconditional one (hypi=1: `impl=`)"""
    if spec_field(spec, "hyp") == "1":
        r = against_spec(who, ans, spec)
        if r:
            return r
    if spec_field(spec, "hypi") == "1":
        r = against_spec(who, ans, spec, "impl", IMPL_WHAT)
        if r:
            return "unconditional theorem (frag=%s): %s" % (spec_field(spec, "frag"), r)
        # on the fragment the two reference semantics are the same (C11_denoteImpl_eq_denote_on_fragment)
        if spec_field(spec, "frag") == "1" and spec_field(spec, "spec") != spec_field(spec, "impl"):
            return "the two reference semantics differ on a pattern of the fragment: spec=%s impl=%s" % (
                spec_field(spec, "spec"), spec_field(spec, "impl"))
    return None


DOC_WHAT = "the documented semantics with the documented (inclusive) upper bound of [a-b] (denoteDoc, Thm/C11Doc.lean)"


def against_doc(who, ans, spec):
    """hypi=1: the answer against `doc=` (the documentation's upper bound of `[a-b]` is inclusive)"""
    if spec_field(spec, "hypi") != "1" or spec_field(spec, "doc") in (None, "-"):
        return None
    r = against_spec(who, ans, spec, "doc", DOC_WHAT)
    if r:
        return "documented upper bound of [a-b] is not tried: " + r
    return None


class C11(Prop):
    pid = "C11"
    title = "pattern strings mean what the syntax documentation says"
    thm_modules = ["PeliteModel.Thm.C11", "PeliteModel.Thm.C11Parse", "PeliteModel.Thm.C11Frame", "PeliteModel.Thm.C11Impl", "PeliteModel.Thm.C11Doc", "PeliteModel.Thm.C11Grammar", "PeliteModel.Thm.Witnesses64"]
    gens = gen_patsem.SEM_GENS + props_pattern.PARSE_GENS + gen_patsem.OUTSIDE_GENS + gen_patsem.DOC_GENS
    named_errors = set()     # the statement names no parse error kind: errors agree by class

    def judge(self, op, impl, model, spec):
        if op.startswith("pat_ref"):
            # model only: the model's own answer against the reference semantics
            if spec_field(spec, "hyp") == "1" or spec_field(spec, "hypi") == "1":
                r = against_both("the interpreter model", model, spec)
                if r:
                    return {"kind": "spec", "text": "raw buffer (model vs. specification): " + r}
            elif klass(model) not in ("ok", "err"):
                return {"kind": "spec", "text": "raw buffer: the model did not answer: %s" % model[:200]}
            return None
        return Prop.judge(self, op, impl, model, spec)

    def oracle(self, op, impl, model, spec):
        if op.startswith("pat_parse"):
            return props_pattern.judge_parse(op, impl, model)
        if op.startswith("pat_sem"):
            return against_both("the scanner", impl, spec) or against_doc("the scanner", impl, spec)
        return None

    def nontrivial(self, op, impl):
        if op.startswith("pat_parse"):
            return impl.startswith("ok ") and not impl.endswith("atoms=Save(0)")
        if op.startswith("pat_sem"):
            return impl.startswith("ok 1")
        return False


PROPS = [C11()]
