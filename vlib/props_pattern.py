"""C17: the compile-time `pelite::pattern!` macro and the run-time `pelite::pattern::parse` agree.

Correspondence part: `pat_parse` op lines through the Rust parser and the Lean model (judge_parse).
Batch part (`extra_checks`): literals compiled through the real proc macro (vlib.macrocase) against the
model's `pat_macro`, tied to `pat_parse` of model and implementation on the same pattern strings.
"""
import os, re, time

from .props import Prop, klass, spec_field
from . import gen_pattern, macrocase, run, build

PARSE_GENS = gen_pattern.PARSE_GENS

_SLOT_RE = re.compile(r"(?:Save|Pir|Check|Zero|ReadI8|ReadU8|ReadI16|ReadU16|ReadI32|ReadU32)\((\d+)\)")
_OK_RE = re.compile(r"ok save_len=(\d+) atoms=(\S+)\Z")
_ERR_RE = re.compile(r"err (\w+) (\d+)\Z")


def _input_len(op):
    parts = op.split()
    if len(parts) < 2 or parts[1] == "-":
        return 0
    return len(parts[1]) // 2


def judge_parse(op, impl, model):
    """judge for `pat_parse` op lines: None when fine, else a text"""
    impl = impl if impl is not None else "none"
    model = model if model is not None else "none"
    ki, km = klass(impl), klass(model)
    # totality of the implementation, whatever the model says
    if ki in ("panic", "crash", "timeout", "ub", "diverge", "none", "other", "bad-op"):
        return "the run-time parser did not return (%s), model: %s" % (impl[:200], model[:200])
    n = _input_len(op)
    if ki == "err" and impl != "err NotUtf8":
        m = _ERR_RE.match(impl)
        if not m:
            return "malformed error answer: %s" % impl[:200]
        if m.group(1) not in gen_pattern.ERROR_KINDS:
            return "unknown error kind: %s" % impl[:200]
        if int(m.group(2)) > n:
            return "error position %s beyond the end of the %d byte input" % (m.group(2), n)
    if ki == "ok":
        m = _OK_RE.match(impl)
        if not m:
            return "malformed ok answer: %s" % impl[:200]
        sl = int(m.group(1))
        slots = [int(x) for x in _SLOT_RE.findall(m.group(2))]
        need = 1 + max(slots) if slots else 0
        if sl < need:
            return "save_len=%d smaller than 1 + the largest slot %d" % (sl, need - 1)
        if sl > 255:
            return "save_len=%d exceeds 255" % sl
    # correspondence: textual identity (panic by class only)
    if km == "panic" and ki == "panic":
        return None
    # the properties (C11, C17) name no error kind: which of several applicable errors a rejected string
    # reports, and at which position inside the input, is the parser's choice
    if km == "err" and ki == "err":
        return None
    if impl != model:
        return "impl=%s model=%s" % (impl[:300], model[:300])
    return None


def _map_parse_to_macro(ans):
    """what `pat_macro` must answer for the escaped literal of a string whose `pat_parse` answer is `ans`"""
    if ans.startswith("ok "):
        return ans
    m = _ERR_RE.match(ans)
    if m:
        return "compile_error InvalidPattern(%s,%s)" % (m.group(1), m.group(2))
    return None


# literal-level cases (source texts): unsupported escapes, other literal kinds, verbatim control characters
LITERAL_CASES = [
    '"\\0"', '"12 \\0 34"', '"\\x41"', '"12 \\x20 34"', '"\\u{41}"', '"12 \\u{20}"',
    '"12 \\\n    34"',                 # backslash-newline continuation: the macro sees `\` + newline
    'r"12 34"', 'r#"12 34"#', 'b"12"', "'a'", "b'1'", "1", "12", "0x12", "1.5",
    '"12"suffix', '"12 34"u8', '""', '""x',
    '"12 \\r 34"', '"\\r\\n12\\r\\n"',  # escaped CR
    '"12\t34"', '"12\n34"', '"\t\n 12 \n\t"', '"12 \\t\\n 34"',
    '"\\"\x00\x01\x1f\x7f\\" 00"',       # verbatim control characters inside a quoted string
    '"\\\'"', '"\'"', '"\\\\"', '"\\"\\\\\\" 00"', '"\\"\\"\\"\\" 12"',
]


# Coverage of the compiled batch: pattern strings that together make the parser emit every `Atom` variant it can emit
# (`C11_parse_emits`, Thm/C11Frame.lean — the first one is the example next to that theorem); they go into EVERY batch, and the
# batch fails when a variant is absent from the constants that were really compiled.
COVERAGE_PATTERNS = [
    "12 ' ${ } % * ? [300-600] @4 i1 u1 i2 u2 i4 u4 z ( 00 | 01 ) 02",
    "55 8B EC ' ? ?? [4] [16-32]",                       # Byte Save Skip Rangext Many
    "E8 ${ 48 ' } 90 E9 $ 'C3",                           # Push Jump4 Pop Save
    "EB % 90 74 %{ 'CC } 8B 05 * 'FF",                    # Jump1 Ptr Push Pop
    "@2 i1 u1 @3 i2 u2 @4 i4 u4 z 00",                    # Aligned Read* Zero
    "( 01 | 02 ' | 03 ( 04 | 05 ) ) 06",                  # Case Break Nop, nested
    "\"text\" 00 [1000] 'FF",                            # quoted bytes, a long skip (Rangext + Skip)
    # white space INSIDE a quoted section is data: CR LF pairs, runs of spaces, tabs (a normalisation of the
    # literal before parsing - CRLF -> LF, collapsed spaces, trimming - changes the bytes)
    "68 * \"OK\r\n\" 00", "\"a  b   c\" 00", "\"\r\n\r\n\" \" \t \"", "\"  \" \"\n\r\" 00", "E8 \" x \"",
    # atom counts around 2^8 and beyond (Save(0) + n bytes: 256, 257, 301, 1001 atoms): the embedded array has
    # every atom whatever the count; text beyond Latin-1 (two- and three-byte UTF-8 sequences)
    " ".join("%02X" % (i & 0xFF) for i in range(255)), " ".join("%02X" % (i & 0xFF) for i in range(256)),
    " ".join("%02X" % ((7 * i) & 0xFF) for i in range(300)), " ".join("%02X" % ((3 * i) & 0xFF) for i in range(1000)),
    "b8 * \"\u0141\u00f3d\u017a \u65e5\u672c\" 00",
]


class C17(Prop):
    pid = "C17"
    title = "pattern macro = run-time parser"
    thm_modules = ["PeliteModel.Thm.C11Parse", "PeliteModel.Thm.C17"]
    gens = gen_pattern.PARSE_GENS
    named_errors = set()     # the statement names no parse error kind: errors agree by class

    def oracle(self, op, impl, model, spec):
        if not op.startswith("pat_parse"):
            return None
        return judge_parse(op, impl, model)

    def nontrivial(self, op, impl):
        return impl.startswith("ok ") and not impl.endswith("atoms=Save(0)")

    # ------------------------------------------------------------------------------------------
    def _pick_strings(self, rng, n_valid, n_bad, model_bin):
        """-> (valid pattern strings, rejected pattern strings) classified by the model's pat_parse"""
        cands = []
        want_features = [lambda s: '"' in s, lambda s: "'" in s, lambda s: "\t" in s or "\n" in s,
                         lambda s: any(ord(c) > 127 for c in s), lambda s: "\\" in s, lambda s: "\r" in s,
                         lambda s: "(" in s, lambda s: "{" in s]
        tries = 0
        while len(cands) < n_valid and tries < n_valid * 60:
            tries += 1
            s = gen_pattern.valid_pattern(rng, None, rng.choice(["none", "space", "mixed", "mixed", "nl"]), safe=True)
            if len(s) > 400:
                continue
            nfeat = sum(1 for f in want_features if f(s))
            # prefer the strings with quoted strings, saves, tabs / newlines, non-ASCII, backslashes
            if nfeat >= 3 or rng.random() < 0.15:
                cands.append(s)
        # rejected strings: classified by the model so that every error kind is present
        kinds = list(gen_pattern.ERROR_KINDS)
        per = max(1, n_bad // len(kinds))
        pool = []
        for k in kinds:
            for s in gen_pattern.ERROR_SAMPLES[k]:
                if len(s) <= 1200:
                    pool.append(s)
                    pool.append(rng.choice(["12 ", "\"a\\\" ' ", "?", "\t\n", "\"\u00e9\" ", "[5]", "' "]) + s)
        rng.shuffle(pool)
        ans = run.run_stream([model_bin], ["pat_parse " + (s.encode("utf-8").hex() or "-") for s in pool], 120)
        by_kind = {}
        for s, a in zip(pool, ans):
            m = _ERR_RE.match((a or "").split(" ## ")[0])
            if m:
                by_kind.setdefault(m.group(1), []).append(s)
        bad = []
        for k in kinds:
            bad += by_kind.get(k, [])[:per]
        rest = [s for k in kinds for s in by_kind.get(k, [])[per:]]
        rng.shuffle(rest)
        bad += rest[:max(0, n_bad - len(bad))]
        # characters that are white space for `str::trim` / `char::is_whitespace` but not for the pattern
        # grammar (which pads with space, tab, CR, LF only), at either end of an otherwise valid pattern
        for ch in ("\u00a0", "\u000c", "\u000b", "\u0085", "\u2009", "\u3000", "\u2028"):
            bad += ["55 8B EC" + ch, ch + "55 8B EC", "55 " + ch + " 8B"]
        return cands, bad

    def _batch(self, rng, n_valid, n_bad, with_literals, impl_bin, model_bin):
        viol = []
        valid, bad = self._pick_strings(rng, n_valid, n_bad, model_bin)
        valid = [p for p in COVERAGE_PATTERNS if p not in valid] + valid
        strings = valid + bad
        lits = [macrocase.escape_literal(s, rng) if rng.random() < 0.85 else macrocase.escape_literal_canonical(s) for s in strings]
        extra = list(LITERAL_CASES) if with_literals else []
        items = lits + extra
        # model / implementation answers of the run-time parser on the same strings
        plines = ["pat_parse " + (s.encode("utf-8").hex() or "-") for s in strings]
        m_parse = [(a or "none").split(" ## ")[0] for a in run.run_stream([model_bin], plines, 120)]
        i_parse = run.run_stream([impl_bin], plines, 30)
        res = macrocase.run_batch(items)
        viol += res["violations"]
        det = res["details"]
        n_ok_strings = n_err_strings = n_reworded = 0
        kinds_seen = set()
        for k, s in enumerate(strings):
            tag = "pattern %r (literal %s)" % (s[:200], lits[k][:250])
            j = judge_parse(plines[k], i_parse[k], m_parse[k])
            if j:
                viol.append("%s: pat_parse: %s" % (tag, j))
            want = _map_parse_to_macro(m_parse[k])
            mm = det["model"].get(k)
            if want is None:
                viol.append("%s: model pat_parse gave %s" % (tag, m_parse[k][:200]))
                continue
            if mm != want:
                viol.append("%s: model pat_macro(literal)=%s but model pat_parse(string)=%s" % (tag, (mm or "none")[:300], m_parse[k][:300]))
            if k in det["skipped"] or k in det["skipped_lexical"]:
                viol.append("%s: a properly escaped literal was skipped by the batch oracle" % tag)
                continue
            ia = i_parse[k] or "none"
            if ia.startswith("ok "):
                n_ok_strings += 1
                got = det["compiled"].get(k)
                if got != ia:
                    viol.append("%s: compiled macro gives %s, run-time parser gives %s" % (tag, (got or "did-not-compile")[:300], ia[:300]))
            else:
                n_err_strings += 1
                m = _ERR_RE.match(ia)
                msgs = det["rejected"].get(k)
                if m:
                    kinds_seen.add(m.group(1))
                # "a string the run-time parser rejects does not compile": the compile error is what
                # counts, its wording (kind text, position format) is diagnostics
                if not m or not msgs:
                    viol.append("%s: run-time parser gives %s, the macro's compile error is %s" % (tag, ia[:200], msgs))
                elif not macrocase.reason_matches("InvalidPattern(%s,%s)" % (m.group(1), m.group(2)), [("proc macro panicked", p) for p in msgs]):
                    n_reworded += 1
        # literal-level cases: only the generic checks of run_batch apply; make sure they were really exercised
        nlit = 0
        for k in range(len(lits), len(items)):
            if k in det["compiled"] or k in det["rejected"]:
                nlit += 1
            elif k not in det["skipped"] and k not in det["skipped_lexical"]:
                pass    # a violation was already recorded by run_batch
        stats = {"literals": len(items), "valid_strings": len(valid), "rejected_strings": len(bad), "literal_cases": len(extra),
                 "literal_cases_exercised": nlit, "compiled": res["compiled"], "rejected": res["rejected"], "skipped": res["skipped"],
                 "builds": res["builds"], "strings_ok": n_ok_strings, "strings_err": n_err_strings, "compile_errors_worded_differently": n_reworded, "error_kinds": sorted(kinds_seen),
                 "suffixed_compiled": [items[i] for i in det["suffixed"] if i in det["compiled"]],
                 "rustc_lexer_rejects": [items[i][:80] for i in det["rustc_lexer_rejects"]], "batch_wall_s": res["wall_s"],
                 "atom_variants_compiled": res.get("atom_variants", [])}
        # coverage of THIS batch (every batch carries COVERAGE_PATTERNS)
        missing = [v for v in macrocase.EMITTED_VARIANTS if v not in stats["atom_variants_compiled"]]
        if missing:
            viol.append("coverage: no compiled constant of the batch contains the Atom variant(s) %s, which the parser can emit (C11_parse_emits)" % missing)
        extra_v = [v for v in stats["atom_variants_compiled"] if v in macrocase.NEVER_EMITTED or v not in macrocase.ATOM_VARIANTS]
        if extra_v:
            viol.append("coverage: a compiled constant contains the Atom variant(s) %s, which no pattern string produces (C11_parse_emits)" % extra_v)
        stats["atom_variants_missing"] = missing
        return viol, stats

    def extra_checks(self, rng, tier, bindir):
        """-> (violation texts, stats): literals through the real proc macro vs. model and run-time parser"""
        t0 = time.time()
        impl_bin = os.path.join(bindir, "impl")
        model_bin = build.model_bin()
        plan = [(110, 25, True)] if tier == "quick" else [(420, 65, True), (440, 60, False), (440, 60, False)]
        viol, batches = [], []
        for (nv, nb, wl) in plan:
            v, st = self._batch(rng, nv, nb, wl, impl_bin, model_bin)
            viol += v
            batches.append(st)
        stats = {"batches": batches, "wall_s": 0.0}
        for key in ("literals", "compiled", "rejected", "skipped", "builds", "strings_ok", "strings_err", "literal_cases_exercised"):
            stats[key] = sum(b[key] for b in batches)
        stats["error_kinds"] = sorted(set(k for b in batches for k in b["error_kinds"]))
        stats["atom_variants_compiled"] = sorted(set(v for b in batches for v in b["atom_variants_compiled"]))
        stats["atom_variants_parser_can_emit"] = list(macrocase.EMITTED_VARIANTS)
        stats["atom_variants_missing"] = [v for v in macrocase.EMITTED_VARIANTS if v not in stats["atom_variants_compiled"]]
        missing = [k for k in gen_pattern.ERROR_KINDS if k not in stats["error_kinds"]]
        if missing:
            viol.append("batch construction: no rejected literal for the error kinds %s" % missing)
        stats["wall_s"] = round(time.time() - t0, 2)
        stats["violations"] = len(viol)
        return viol, stats


PROPS = [C17()]
