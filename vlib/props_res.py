"""C12 — resource tree traversal, lookup and reassembly reflect the stored directory
(src/resources/{mod,find,group,art}.rs, Pe::resources)."""
import re
from .props import Prop, spec_field, klass
from . import gen_res, gen_walk


def strip_refs(s):
    """drop what depends on the layout: `@<off>:<len>` references and `<off>:<len>#` before a digest"""
    s = re.sub(r"@\d+:\d+", "", s)
    s = re.sub(r"\bes=\d+:\d+", "es=", s)                 # the entry array of a group (icons / cursors)
    return re.sub(r"\d+:\d+#", "#", s)


def want(op):
    m = re.search(r"(?:^| )want=(\S+)", op)
    return m.group(1) if m else None


class C12(Prop):
    named_errors = set()     # the statement names no error kind: errors agree by class
    pid = "C12"
    title = "resource tree traversal, lookup and reassembly reflect the stored directory"
    thm_modules = ["PeliteModel.Thm.C12", "PeliteModel.Thm.C12Find", "PeliteModel.Thm.C12Name", "PeliteModel.Thm.ImageLayout", "PeliteModel.Thm.C12Layout", "PeliteModel.Thm.Witnesses64"]
    gens = [gen_res.gen_wellformed, gen_res.gen_corrupt, gen_res.gen_small, gen_res.gen_offpath, gen_walk.gen_shared_dag, gen_res.gen_res_big, gen_res.gen_nameeq, gen_res.gen_selfref_big, gen_res.gen_dangling]

    def oracle(self, op, impl, model, spec):
        w = want(op)
        words = op.split(" ")
        sub = None
        if words[0] == "res" and len(words) > 2:
            sub = words[2]
        elif words[0] == "res_raw" and len(words) > 3:
            sub = words[3]
        elif words[0] in ("grp_write", "grp_write_chunk"):
            sub = "grp_write"
        if sub == "grp_write_chunk":          # a short-writing sink must receive the same file as a vector
            sub = "grp_write"
        # facts the generator knows by construction
        if w is not None:
            if sub == "fsck":
                if w == "ok" and impl != "ok":
                    return "fsck of a well-formed tree answered %s" % impl[:200]
                if w == "fail" and klass(impl) != "err":
                    return "fsck accepted a tree with a dangling reference / a directory containing itself: %s" % impl[:200]
            if sub == "grp_write":
                if impl != "ok " + w:
                    return "reassembled group differs from the original file: %s vs %s" % (impl[:300], w[:300])
        # the Lean specification's answer from the abstract tree
        if spec_field(spec, "enc") == "0":
            return "the generator's canonical writer and the reference writer (Spec.encodeTree) disagree"
        # `local=1` (gen_offpath): the section no longer represents the tree (`hyp=0`) but the lookup's path avoids what
        # was broken, so the tree's answer must still hold — path locality, Thm/C12Find.lean
        if spec_field(spec, "hyp") == "1" or re.search(r"(?:^| )local=1(?: |$)", op):
            m = re.search(r"(?:^| )spec=(.*)$", spec)          # last field, may contain blanks
            s = m.group(1) if m else None
            if s is not None and s != "-":
                got = strip_refs(impl)
                if sub == "version":
                    got = got.split(" vi=")[0]
                if got != s:
                    return "%s reports %s, the stored tree says %s" % (sub, got[:400], s[:400])
        return None

    def nontrivial(self, op, impl):
        if not impl.startswith("ok") and not impl.startswith("fsck=ok"):
            return False
        return impl not in ("ok", "ok []")


PROPS = [C12()]
