"""C16 — Rich header decode, checksum and encode are mutually consistent."""
import re
from . import gen_rich
from .props import Prop, spec_field, klass


def _field(ans, key):
    m = re.search(r"(?:^| )%s=(\S*)" % re.escape(key), ans)
    return m.group(1) if m else None


class C16(Prop):
    named_errors = set()
    pid = "C16"
    title = "Rich header decode, checksum and encode are mutually consistent"
    thm_modules = ["PeliteModel.Thm.C16", "PeliteModel.Thm.C16Layout"]
    gens = [gen_rich.gen_rich_rt, gen_rich.gen_rich_raw, gen_rich.gen_rich_img, gen_rich.gen_rich_codec,
            gen_rich.gen_rich_encode, gen_rich.gen_rich_iter]

    def oracle(self, op, impl, model, spec):
        fam = op.split(" ", 1)[0]
        if klass(impl) in ("panic", "crash", "timeout"):
            # C02/C03 obligations of this module: the theorems say no input makes it panic or hang
            return "%s: %s" % (klass(impl), impl[:200])
        if fam in ("rich_raw", "rich"):
            if impl.startswith("ok "):
                if spec_field(spec, "any") == "0":
                    return "records were returned for a DOS area without a well-formed 'DanS .. Rich key' trailer: %s" % impl[:200]
                if impl == model and spec_field(spec, "wf") == "0":
                    return "the returned header is not the documented layout of the returned stub, key and records: %s" % impl[:200]
            return None
        want = spec_field(spec, "spec")
        if fam == "rich_rt" and want is not None and spec_field(spec, "hyp") == "0":
            # the property states the round trip for EVERY stub and record list: outside the
            # hypotheses of the `_partial` theorem a failure is still a violation (two input
            # classes are listed in known-findings.txt: checksum 0, records imitating the header)
            got = "img=%s,key=%s,csum=%s,n=%s,recs=%s,reenc=%s" % tuple(_field(impl, k) for k in ("img", "key", "csum", "n", "recs", "reenc"))
            if not impl.startswith("ok ") or got != want:
                return "round trip: library answered %s, the specification says %s" % (impl[:300], want[:300])
            return None
        if spec_field(spec, "hyp") != "1":
            return None
        if fam == "rich_rt":
            got = "img=%s,key=%s,csum=%s,n=%s,recs=%s,reenc=%s" % tuple(_field(impl, k) for k in ("img", "key", "csum", "n", "recs", "reenc"))
            if not impl.startswith("ok ") or got != want:
                return "round trip: library answered %s, the specification says %s" % (impl[:300], want[:300])
        elif fam == "rich_codec":
            got = "enc=%s,dec=%s" % (_field(impl, "enc"), _field(impl, "dec"))
            if got != want:
                return "record codec: %s, specification %s" % (impl[:200], want[:200])
        elif fam == "rich_decode":
            got = "dec=%s,enc=%s" % (_field(impl, "dec"), _field(impl, "enc"))
            if got != want:
                return "record codec: %s, specification %s" % (impl[:200], want[:200])
        elif fam == "rich_encode":
            if want == "Err":
                if not (impl.startswith("ok Err:") and impl.endswith("dest=untouched")):
                    return "encode into a too small destination: %s" % impl[:200]
            else:
                if not impl.startswith("ok Ok:") or "Ok:" + (_field(impl, "dest") or "") != want:
                    return "encode wrote %s, the documented layout is %s" % (impl[:300], want[:300])
        elif fam == "rich_iter":
            if impl.startswith("ok ") and impl[3:] != want:
                return "iterator history: %s, a deque of the records gives %s" % (impl[:300], want[:300])
            if klass(impl) not in ("ok", "err", "other"):
                return "iterator history: %s" % impl[:200]
        return None

    def nontrivial(self, op, impl):
        if not impl.startswith("ok "):
            return False
        fam = op.split(" ", 1)[0]
        if fam in ("rich", "rich_raw", "rich_rt"):
            return "recs=[]" not in impl
        return True


PROPS = [C16()]
