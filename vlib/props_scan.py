"""C10 — the scanner reports exactly the positions where the pattern matches (plus the C02/C03
obligations of the interpreter: `pat_exec` on arbitrary atom lists)."""
import os, re
from .props import Prop, spec_field, klass
from . import gen_scan


# C10_STRICT_FINDS=1 judges `finds` against the literal statement "succeeds precisely when exactly one
# candidate position matches" instead of the proved variant C10_finds_iff_unique_partial
STRICT_FINDS = os.environ.get("C10_STRICT_FINDS", "") == "1"


def parse_hits(txt):
    """'[c{a,b};c{..}]' -> list of (c text, [slot texts])"""
    txt = txt.strip()
    if not (txt.startswith("[") and txt.endswith("]")):
        return None
    body = txt[1:-1]
    if not body:
        return []
    out = []
    for e in body.split(";"):
        m = re.match(r"^([^{]*)\{([^}]*)\}$", e)
        if not m:
            return None
        out.append((m.group(1), m.group(2).split(",") if m.group(2) else []))
    return out


def caps_agree(spec_slots, impl_slots):
    """slots the reference execution writes must hold its values; `_` = not written by that execution"""
    if len(spec_slots) != len(impl_slots):
        return False
    return all(s == "_" or s == i for s, i in zip(spec_slots, impl_slots))


class C10(Prop):
    named_errors = set()

    def project(self, op, ans):
        # `Matches::hits()` is documented as a performance counter ("number of times the slow exec was
        # invoked") and `Matches::range()` as the remaining range: the property fixes neither value
        # EXACTLY (a search strategy that calls the interpreter less often, or resumes elsewhere after
        # exhaustion, is not a violation), so the exact values are outside the compared projection.
        # What every correct run satisfies (Thm/C10Pos.lean: C10_scan_hits, C10_scan_hits_no_overflow) is
        # checked on the implementation's own answer by `range_hits_oracle` below.
        a = Prop.project(self, op, ans)
        return re.sub(r" range=\d+\.\.\d+ hits=\d+", "", a) if isinstance(a, str) else a

    @staticmethod
    def own_positions(op, hits):
        """positions of the implementation's matches as its caller can observe them: its own save[0] when the
        pattern starts with Save(0), the array has a slot 0 and no later atom writes it (C10_pos_is_save0)"""
        a = op.split(" ")
        atoms, nsave = a[2], int(a[-1])
        if atoms.startswith("Save(0)") and nsave >= 1 and not re.search(r"Save\(0\).*(Save|Zero|Read\w+)\(0\)", atoms):
            return [int(h[0]) for h in hits]
        return None

    def range_hits_oracle(self, op, impl, model, spec):
        """`ok [..] range=<s>..<e> hits=<n> more=<m>` of scan / scan_code against C10_scan_hits /
        C10_scan_hits_no_overflow — theorems without any hypothesis on image, pattern or range, so this is
        applied whenever the implementation answered in that shape: with lo0..hi0 the range the Matches
        object was created with, e = hi0 (range.end never changes), lo0 <= s <= max(lo0, hi0) (range.start
        never decreases and never passes the end), every reported position p has lo0 <= p < s (start
        advances past each reported candidate), and #reported <= n <= s - lo0 (each reported match cost one
        interpreter call; each call is paid for by one position of progress: C10_hits_bounded)."""
        m = re.match(r"ok (\[\S*\]) range=(\d+)\.\.(\d+) hits=(\d+) more=([01])$", impl)
        lo0, hi0 = spec_field(spec, "lo0"), spec_field(spec, "hi0")
        if not m or lo0 is None or hi0 is None or not lo0.isdigit() or not hi0.isdigit():
            return None
        lo0, hi0 = int(lo0), int(hi0)
        s, e, n = int(m.group(2)), int(m.group(3)), int(m.group(4))
        hits = parse_hits(m.group(1))
        if hits is None:
            return None
        if e != hi0:
            return "range.end changed: the scan was started over %d..%d and ends with range=%d..%d" % (lo0, hi0, s, e)
        if s < lo0:
            return "range.start moved backwards: started at %d, ends with range=%d..%d" % (lo0, s, e)
        if s > max(lo0, hi0):
            return "range.start %d passed the end of the range %d..%d" % (s, lo0, hi0)
        if n < len(hits):
            return "hits=%d is below the number of reported matches %d (every reported match is one exec call)" % (n, len(hits))
        if n > s - lo0:
            return "hits=%d exceeds the %d positions range.start advanced (%d -> %d)" % (n, s - lo0, lo0, s)
        pos = self.own_positions(op, hits)
        if pos is None and impl == model:
            p = spec_field(spec, "pos")
            pos = [int(x) for x in p[1:-1].split(",")] if p and p != "[]" else []
        for p in pos or []:
            if not (lo0 <= p < s):
                return "reported position %d is not in [%d, %d) = [range.start before, range.start after)" % (p, lo0, s)
        return None
    pid = "C10"
    title = "the scanner reports exactly the positions where the pattern matches"
    thm_modules = ["PeliteModel.Thm.C10", "PeliteModel.Thm.C10Pos", "PeliteModel.Thm.Witnesses64"]
    gens = [gen_scan.gen_corpus, gen_scan.gen_scan, gen_scan.gen_skiptable, gen_scan.gen_exec]

    def oracle(self, op, impl, model, spec):
        fam = op.split(" ", 1)[0]
        if fam not in ("scan", "scan_code", "finds", "finds_code"):
            return None
        if fam in ("scan", "scan_code"):
            # range= / hits= of the implementation's own answer: no hypothesis (any image, pattern, range)
            r = self.range_hits_oracle(op, impl, model, spec)
            if r:
                return r
        if fam.startswith("finds") and spec_field(spec, "nr") == "1":
            # default criterion (C10_finds_iff_one_reported): finds succeeds precisely when the exhaustive scan
            # from the same initial state reports exactly one match, whose captures it leaves in the save array;
            # in-hypothesis = the pattern does not read the save array (no Check / Pir), any image, any range
            if klass(impl) != "ok":
                return None if impl.startswith("noimg") else "finds did not return on an in-hypothesis input: %s" % impl[:200]
            m = re.match(r"ok ([01]) save=(\[[^\]]*\])$", impl)
            if not m:
                return "malformed answer %s" % impl[:200]
            nrep = spec_field(spec, "nrep")
            if nrep is None or not nrep.isdigit():
                return "the model's exhaustive scan did not return (nrep=%s)" % nrep
            if m.group(1) != ("1" if nrep == "1" else "0"):
                return "finds answered %s but the exhaustive scan reports %s matches" % (m.group(1), nrep)
            if nrep == "1" and m.group(2) != spec_field(spec, "rcaps"):
                return "finds left %s in the save array, the only reported match has captures %s" % (m.group(2), spec_field(spec, "rcaps"))
        hyp = spec_field(spec, "hyp")
        if fam.startswith("finds") and STRICT_FINDS:
            # the literal statement: no "no match in the grey zone" hypothesis (false, see C10_finds_iff_unique_false)
            hyp = spec_field(spec, "hypw")
        if hyp != "1" and fam in ("scan", "scan_code") and spec_field(spec, "hypu") == "1":
            # a file view whose section table is well formed except for its ORDER: the statement says "any
            # image", the completeness theorem does not reach it (C10_scan_complete_needs_SecWF); judged like an
            # in-hypothesis input — what it finds is the documented `next_section` limitation (known finding)
            hyp = "1"
        if hyp != "1":
            return None
        if klass(impl) != "ok":
            if impl.startswith("noimg"):
                return None
            return "scanner did not return on an in-hypothesis input: %s" % impl[:200]
        if fam.startswith("finds"):
            want = spec_field(spec, "spec")
            m = re.match(r"ok ([01]) save=\[([^\]]*)\]$", impl)
            if not m:
                return "malformed answer %s" % impl[:200]
            if m.group(1) != want:
                return "finds answered %s but the number of matching candidate positions is %s" % (m.group(1), spec_field(spec, "specn"))
            if want == "1":
                caps = parse_hits("[" + spec_field(spec, "caps") + "]")
                got = m.group(2).split(",") if m.group(2) else []
                if caps and not caps_agree(caps[0][1], got):
                    return "finds left %s in the save array, the unique match %s captures %s" % (got, caps[0][0], caps[0][1])
            return None
        m = re.match(r"ok (\[\S*\]) range=(\d+)\.\.(\d+) hits=(\d+) more=([01])$", impl)
        if not m:
            return "malformed answer %s" % impl[:200]
        hits = parse_hits(m.group(1))
        ref = parse_hits(spec_field(spec, "spec") or "")
        if hits is None or ref is None:
            return "malformed lists"
        more = m.group(5) == "1"
        # positions of the implementation's matches: its own save[0] when the pattern starts with Save(0),
        # else the model's ghost positions (valid when both report the same list)
        a = op.split(" ")
        atoms, nsave = a[2], int(a[-1])
        pos = None
        if atoms.startswith("Save(0)") and nsave >= 1 and not re.search(r"Save\(0\).*(Save|Zero|Read\w+)\(0\)", atoms):
            pos = [int(h[0]) for h in hits]
        elif impl == model:
            p = spec_field(spec, "pos")
            pos = [int(x) for x in p[1:-1].split(",")] if p and p != "[]" else []
        if pos is None:
            return None
        if any(x >= y for x, y in zip(pos, pos[1:])):
            return "reported positions are not strictly ascending: %s" % pos[:20]
        if impl == model and spec_field(spec, "sound") != "1":
            return "a reported position is outside the range or the pattern does not execute there: %s" % pos[:20]
        last = pos[-1] if pos else -1
        bypos = dict(zip(pos, hits))
        for c, slots in ref:
            c = int(c)
            if more and c > last:
                break
            if c not in bypos:
                return "candidate position %d at which the pattern executes is not reported (reported %s)" % (c, pos[:20])
            if not caps_agree(slots, bypos[c][1]):
                return "match at %d reported with captures %s, its execution captures %s" % (c, bypos[c][1], slots)
        if not more and int(spec_field(spec, "specn") or 0) > len(ref):
            return "fewer matches reported than matching candidate positions exist"
        return None

    def nontrivial(self, op, impl):
        fam = op.split(" ", 1)[0]
        if fam in ("scan", "scan_code"):
            return impl.startswith("ok [") and not impl.startswith("ok []")
        return impl.startswith("ok 1")


PROPS = [C10()]
