"""C13 — version information is reported completely and unaltered (src/resources/version_info.rs)."""
import re
from .props import Prop, spec_field, klass
from . import gen_version


def strip_refs(s):
    """drop the `<offset>:<length>=` references from an events answer; the fixed info reference
    becomes the word `fixed`"""
    s = re.sub(r"\d+:\d+=", "", s)
    return re.sub(r"(V\([0-9a-f-]*),\d+:\d+\)", r"\1,fixed)", s)


class C13(Prop):
    named_errors = set()     # the statement names no error kind: errors agree by class
    pid = "C13"
    title = "version information is reported completely and unaltered"
    thm_modules = ["PeliteModel.Thm.C13", "PeliteModel.Thm.C13Queries", "PeliteModel.Thm.C13Source", "PeliteModel.Thm.C13WFmt", "PeliteModel.Thm.ImageLayout", "PeliteModel.Thm.C13Layout", "PeliteModel.Thm.Witnesses64"]
    gens = [gen_version.gen_wellformed, gen_version.gen_layouts, gen_version.gen_variants, gen_version.gen_bytecounted,
            gen_version.gen_corrupt, gen_version.gen_small, gen_version.gen_langparse, gen_version.gen_zero_records]

    def oracle(self, op, impl, model, spec):
        """implementation against the specification's answer computed from the abstract tree"""
        if "tree=" not in op:
            return None
        if "tree=L/" in op:
            # a block of the generator's LayoutWriter: must be a documented layout of its tree
            if spec_field(spec, "lay") != "1":
                return "the generator's layout is not accepted as a documented layout of its tree (Spec.VInfo.isBlockB)"
        elif "tree=B/" in op:
            # some String stores its value length in bytes (gen_bytecounted): no claim about the block; the
            # documented answer is claimed only when the layout test accepts it (hyp=1: every marked string
            # has no value, which is the same structure under both conventions)
            pass
        else:
            if spec_field(spec, "enc") == "0":
                return "the generator's writer and the reference writer (Spec.encode) disagree on the block"
            if spec_field(spec, "wf") == "1" and spec_field(spec, "lay") == "0":
                return "the layout test (Spec.VInfo.isBlockB) rejects the reference writer's block"
        if spec_field(spec, "hyp") != "1":
            return None
        want = spec_field(spec, "spec")
        if want is None or want == "-":
            return None
        if klass(impl) != "ok":
            return "well-formed version resource answered %s" % impl[:200]
        got = impl[3:]
        q = op.split(" ")[2]
        if q == "events":
            got = strip_refs(got)
        elif q == "fixed":
            got = got.split("=", 1)[1] if "=" in got else got
        elif q == "translation":
            got = got[got.index("["):]
        elif q == "file_info":
            m = re.search(r"strings=(\{.*\})$", got)
            got = m.group(1) if m else got
        # q == "source": the whole text (hex of its UTF-8 bytes) against Spec.sourceOf (C13_layout_source)
        if got != want:
            return "%s reports %s, the resource holds %s" % (q, got[:400], want[:400])
        return None

    def nontrivial(self, op, impl):
        if not impl.startswith("ok"):
            return False
        q = op.split(" ")[2] if len(op.split(" ")) > 2 else ""
        if q == "events":
            return "S(" in impl or "R(" in impl
        return impl not in ("ok none", "ok static[]", "ok []", "ok -", "ok")


PROPS = [C13()]
