"""Run operation lines through `impl` (real pelite) and `model` (Lean), with crash / hang recovery."""
import os, select, signal, subprocess, threading, time
from concurrent.futures import ThreadPoolExecutor

from .build import ENV


def _limits():
    # a runaway allocation (e.g. a builder that never advances) must end as a crash of that one
    # process, not take the machine down: 6 GiB of address space per worker
    import resource
    try:
        resource.setrlimit(resource.RLIMIT_AS, (6 << 30, 6 << 30))
    except Exception:
        pass


import shutil as _shutil
_PRLIMIT = _shutil.which("prlimit")


def _signame(rc):
    try:
        return signal.Signals(-rc).name
    except Exception:
        return "rc%d" % rc


MAX_ANSWER = 8 << 20
WINDOW = 100000          # operation lines handed to one process at a time
MAX_CRASHES = 60       # per stream: after that many crashes / hangs the rest of the stream is skipped


def run_stream(cmd, lines, op_timeout, cwd=None):
    """lines: list of op lines (no comments). Returns one answer per line.
    A line starting with 'img ' is context: it is re-sent after a restart."""
    answers = [None] * len(lines)
    pos = 0
    stderr_tail = ""
    crashes = 0
    while pos < len(lines):
        ctx = []
        for j in range(pos - 1, -1, -1):
            if lines[j].startswith("img "):
                # the image line plus every later state-changing conversion before `pos`
                ctx = [lines[j]] + [l for l in lines[j + 1:pos] if l.startswith("img_to_")]
                break
        if crashes > MAX_CRASHES:
            # a change that makes a large part of the stream crash or hang: a few dozen failing operations are all a
            # verdict needs; the rest is not run (restarting after each one would take hours)
            for q in range(pos, len(lines)):
                answers[q] = "skipped"
            break
        window_end = min(len(lines), pos + WINDOW)
        feed = ctx + lines[pos:window_end]
        skip = len(ctx)
        # the address-space limit is set by `prlimit` (exec wrapper) rather than a preexec_fn: without a preexec_fn
        # CPython starts the child with vfork, whose cost does not grow with the size of this process (forking a
        # multi-gigabyte parent thousands of times is what made a crash-heavy run take hours)
        if _PRLIMIT:
            proc = subprocess.Popen([_PRLIMIT, "--as=%d" % (6 << 30)] + list(cmd), stdin=subprocess.PIPE, stdout=subprocess.PIPE, stderr=subprocess.PIPE, env=ENV, cwd=cwd)
        else:
            proc = subprocess.Popen(cmd, stdin=subprocess.PIPE, stdout=subprocess.PIPE, stderr=subprocess.PIPE, env=ENV, cwd=cwd, preexec_fn=_limits)
        # (the threads get THIS process and THIS feed as arguments: a closure over the loop variables would, after
        # the loop has moved on to the next process, close the new process's stdin — seen as `crash exit0`)
        def writer(p=proc, data=("\n".join(feed) + "\n").encode()):
            try:
                p.stdin.write(data)
            except Exception:
                pass
            try:
                p.stdin.close()
            except Exception:
                pass
        err_chunks = []
        def errreader(p=proc, sink=err_chunks):
            try:
                sink.append(p.stderr.read()[-2000:])
            except Exception:
                pass
        wt = threading.Thread(target=writer, daemon=True); wt.start()
        et = threading.Thread(target=errreader, daemon=True); et.start()
        buf = b""
        fd = proc.stdout.fileno()
        last = time.time()
        dead = False
        timed_out = False
        scanned = 0
        oversized = False
        while pos < window_end:
            nl = buf.find(b"\n", scanned)
            if nl < 0:
                scanned = len(buf)
                if scanned > MAX_ANSWER:
                    # an answer line of many megabytes (e.g. a slice whose length was not clamped): the outcome is
                    # what counts, not the text; stop the process here instead of reading gigabytes
                    oversized = True; break
            if nl >= 0:
                line = buf[:nl].decode("utf-8", "replace"); buf = buf[nl + 1:]; scanned = 0
                if skip:
                    skip -= 1
                else:
                    answers[pos] = line; pos += 1
                last = time.time()
                continue
            r, _, _ = select.select([fd], [], [], 0.25)
            if r:
                chunk = os.read(fd, 1 << 16)
                if not chunk:
                    dead = True; break
                buf += chunk
            elif time.time() - last > op_timeout:
                timed_out = True; break
        if pos >= window_end:
            try: proc.kill()
            except Exception: pass
            proc.wait()
            continue
        crashes += 1
        if oversized:
            proc.kill(); proc.wait()
            answers[pos] = "other oversized-answer (more than %d bytes): %s" % (MAX_ANSWER, buf[:200].decode("utf-8", "replace")); pos += 1
        elif timed_out:
            proc.kill(); proc.wait()
            crashes += 2        # a hang costs the whole time limit: the budget allows a third as many of them
            answers[pos] = "timeout"; pos += 1
        elif dead:
            rc = proc.wait()
            et.join(1)
            tail = (err_chunks[0].decode("utf-8", "replace") if err_chunks else "")
            tail = " ".join(l.strip() for l in tail.strip().split("\n")[-5:] if l.strip() and not l.startswith("note:"))[:400]
            answers[pos] = "crash %s %s" % (_signame(rc) if rc < 0 else "exit%d" % rc, tail)
            pos += 1
    return answers


def run_cases(cmd, cases, op_timeout=10, jobs=8, cwd=None):
    """cases: list of lists of lines. Returns list of lists of answers (same shape)."""
    jobs = max(1, min(jobs, len(cases)))
    chunks = [[] for _ in range(jobs)]
    for i, c in enumerate(cases):
        chunks[i % jobs].append(i)
    out = [None] * len(cases)
    def work(idx):
        lines = []
        for i in idx:
            lines.extend(cases[i])
        ans = run_stream(cmd, lines, op_timeout, cwd)
        k = 0
        for i in idx:
            n = len(cases[i]); out[i] = ans[k:k + n]; k += n
    with ThreadPoolExecutor(jobs) as ex:
        list(ex.map(work, chunks))
    return out
