"""Run operation lines through `impl` (real pelite) and `model` (Lean), with crash / hang recovery."""
import os, select, signal, subprocess, threading, time
from concurrent.futures import ThreadPoolExecutor

from .build import ENV


def _limits():
    # a runaway allocation (e.g. a builder that never advances) must end as a crash of that one
    # process, not take the machine down: 6 GiB of address space per worker
    import resource
    try:
        resource.setrlimit(resource.RLIMIT_AS, (6 << 30, 6 << 30))
    except Exception:
        pass


def _signame(rc):
    try:
        return signal.Signals(-rc).name
    except Exception:
        return "rc%d" % rc


def run_stream(cmd, lines, op_timeout, cwd=None):
    """lines: list of op lines (no comments). Returns one answer per line.
    A line starting with 'img ' is context: it is re-sent after a restart."""
    answers = [None] * len(lines)
    pos = 0
    stderr_tail = ""
    while pos < len(lines):
        ctx = []
        for j in range(pos - 1, -1, -1):
            if lines[j].startswith("img "):
                # the image line plus every later state-changing conversion before `pos`
                ctx = [lines[j]] + [l for l in lines[j + 1:pos] if l.startswith("img_to_")]
                break
        feed = ctx + lines[pos:]
        skip = len(ctx)
        proc = subprocess.Popen(cmd, stdin=subprocess.PIPE, stdout=subprocess.PIPE, stderr=subprocess.PIPE, env=ENV, cwd=cwd, preexec_fn=_limits)
        def writer():
            try:
                proc.stdin.write(("\n".join(feed) + "\n").encode())
                proc.stdin.close()
            except Exception:
                pass
        err_chunks = []
        def errreader():
            try:
                err_chunks.append(proc.stderr.read()[-2000:])
            except Exception:
                pass
        wt = threading.Thread(target=writer, daemon=True); wt.start()
        et = threading.Thread(target=errreader, daemon=True); et.start()
        buf = b""
        fd = proc.stdout.fileno()
        last = time.time()
        dead = False
        timed_out = False
        while pos < len(lines):
            nl = buf.find(b"\n")
            if nl >= 0:
                line = buf[:nl].decode("utf-8", "replace"); buf = buf[nl + 1:]
                if skip:
                    skip -= 1
                else:
                    answers[pos] = line; pos += 1
                last = time.time()
                continue
            r, _, _ = select.select([fd], [], [], 0.25)
            if r:
                chunk = os.read(fd, 1 << 16)
                if not chunk:
                    dead = True; break
                buf += chunk
            elif time.time() - last > op_timeout:
                timed_out = True; break
        if pos >= len(lines):
            try: proc.kill()
            except Exception: pass
            proc.wait()
            break
        if timed_out:
            proc.kill(); proc.wait()
            answers[pos] = "timeout"; pos += 1
        elif dead:
            rc = proc.wait()
            et.join(1)
            tail = (err_chunks[0].decode("utf-8", "replace") if err_chunks else "")
            tail = " ".join(l.strip() for l in tail.strip().split("\n")[-5:] if l.strip() and not l.startswith("note:"))[:400]
            answers[pos] = "crash %s %s" % (_signame(rc) if rc < 0 else "exit%d" % rc, tail)
            pos += 1
    return answers


def run_cases(cmd, cases, op_timeout=10, jobs=8, cwd=None):
    """cases: list of lists of lines. Returns list of lists of answers (same shape)."""
    jobs = max(1, min(jobs, len(cases)))
    chunks = [[] for _ in range(jobs)]
    for i, c in enumerate(cases):
        chunks[i % jobs].append(i)
    out = [None] * len(cases)
    def work(idx):
        lines = []
        for i in idx:
            lines.extend(cases[i])
        ans = run_stream(cmd, lines, op_timeout, cwd)
        k = 0
        for i in idx:
            n = len(cases[i]); out[i] = ans[k:k + n]; k += n
    with ThreadPoolExecutor(jobs) as ex:
        list(ex.map(work, chunks))
    return out
